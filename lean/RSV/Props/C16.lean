import RSV.Model.Api
/-!
# C16 — the public API is total

Properties of the shape-level model `RSV.Model.Api` of the argument checking of the public API:
no argument tuple reaches the outcome `panic`, the documented errors are returned for the
documented conditions, `New` never panics for any pair of 64-bit integers and every encoder it
returns is usable.

The model evaluates, after the argument checks, the slice expressions of the kernels the checked
arguments are handed to (`codeOob`, `leoEncodeOob`, `rsReconOob`, `leoReconOob`, `updateOob`, the
windows of `EncodeIdx`); one of them out of range is the outcome `panic`.  So every totality theorem
says that the argument checks are SUFFICIENT for the slicing.  Structure: `Checks.*` are the checks
alone; `encode_eq_checks`, `verify_eq_checks`, `reconstruct_eq_checks`, `encodeIdx_eq_checks` show
that the kernels never change the answer; the `C16_*` theorems are about the model itself.
HYPOTHESIS of the totality theorems of `Encode` / `Verify` / `Reconstruct*`: `k = .rs8 → 0 < d`
(the matrix kernels read `inputs[0]`; every encoder `New` returns has `0 < d`, `C16_new_usable`;
examples below show it cannot be dropped).  `reconstructSomeOld` (the control logic before fix
7b8525f) reaches `panic` on the historical input of defect D1.

`Update`: the model evaluates the slice expressions of the update kernels (`updateOob`), so
`C16_update_total` says that the argument checks of `Update` are sufficient for that slicing.  It
carries ONE HYPOTHESIS ON THE SHAPES, `∀ x ∈ nw, x.wf` (a nil slice has length 0 — true of every Go
value, not enforced by the record `Sh`); it is needed because `Update` tests `!= nil` on the new
shards where its kernels test `len == 0`, and an `example` below shows that it cannot be dropped.
`updateOld` (the checks before fix bd2a6b4) reaches `panic` on the input found by the
correspondence check.
-/
namespace RSV.Props.C16
open RSV.Model.Api

/-! ### helper lemmas on `shardSize` / `checkShards` -/

theorem shardSize_zero_of_all (s : List Sh) (h : ∀ x ∈ s, x.len = 0) : shardSize s = 0 := by
  unfold shardSize
  have : s.find? (fun x => decide (x.len ≠ 0)) = none := by
    rw [List.find?_eq_none]
    intro x hx
    simp [h x hx]
  rw [this]

theorem shardSize_ne_zero (s : List Sh) (x : Sh) (hx : x ∈ s) (h : x.len ≠ 0) : shardSize s ≠ 0 := by
  unfold shardSize
  cases hf : s.find? (fun x => decide (x.len ≠ 0)) with
  | none =>
    rw [List.find?_eq_none] at hf
    have := hf x hx
    simp [h] at this
  | some z =>
    have := List.find?_some hf
    simpa using this

theorem shardSize_mem (s : List Sh) (h : shardSize s ≠ 0) : ∃ z ∈ s, z.len = shardSize s := by
  unfold shardSize at h ⊢
  cases hf : s.find? (fun x => decide (x.len ≠ 0)) with
  | none => rw [hf] at h; exact absurd rfl h
  | some z => exact ⟨z, List.mem_of_find?_eq_some hf, rfl⟩

theorem shardSize_of_all (s : List Sh) (n : Nat) (hne : s ≠ []) (h : ∀ x ∈ s, x.len = n) :
    shardSize s = n := by
  by_cases hn : n = 0
  · subst hn; exact shardSize_zero_of_all s h
  · cases s with
    | nil => exact absurd rfl hne
    | cons a t =>
      have ha : a.len = n := h a (List.mem_cons_self)
      have : shardSize (a :: t) ≠ 0 := shardSize_ne_zero _ a (List.mem_cons_self) (by omega)
      obtain ⟨z, hz, hzl⟩ := shardSize_mem _ this
      rw [← hzl]; exact h z hz

theorem checkShards_of_all (s : List Sh) (n : Nat) (nilok : Bool) (hne : s ≠ []) (hn : n ≠ 0)
    (h : ∀ x ∈ s, x.len = n) : checkShards s nilok = none := by
  have hs := shardSize_of_all s n hne h
  unfold checkShards
  simp only [hs, hn, if_false]
  rw [if_neg]
  simp only [List.any_eq_true, not_exists]
  intro x ⟨hx, hb⟩
  simp [h x hx] at hb

/-- what `checkShards` establishes: every non-empty entry has the common size -/
theorem checkShards_len (l : List Sh) (nilok : Bool) (h : checkShards l nilok = none) (x : Sh)
    (hx : x ∈ l) (hl : x.len ≠ 0) : x.len = shardSize l := by
  unfold checkShards at h
  simp only at h
  split at h
  · simp at h
  · split at h
    · simp at h
    · rename_i hany
      rw [List.any_eq_true] at hany
      apply Decidable.byContradiction
      intro hne
      exact hany ⟨x, hx, by simp [hne, hl]⟩


/-! ### helper lemmas on the slice expressions of the kernels -/

theorem checkShards_false_all (s : List Sh) (h : checkShards s false = none) (x : Sh) (hx : x ∈ s) :
    x.len = shardSize s := by
  unfold checkShards at h
  simp only at h
  split at h
  · simp at h
  · split at h
    · simp at h
    · rename_i hany
      rw [List.any_eq_true] at hany
      apply Decidable.byContradiction
      intro hne
      exact hany ⟨x, hx, by simp [hne]⟩

theorem checkShards_size_ne_zero (s : List Sh) (b : Bool) (h : checkShards s b = none) : shardSize s ≠ 0 := by
  unfold checkShards at h
  simp only at h
  split at h
  · simp at h
  · assumption

theorem resliceOob_false (x : Sh) (n : Nat) : resliceOob x n = false := by
  unfold resliceOob
  split
  · simp; omega
  · rfl

theorem codeOob_false (inputs outputs : List Nat) (n : Nat)
    (hi : outputs ≠ [] → inputs ≠ [] ∧ ∀ l ∈ inputs, l = n)
    (ho : ∀ l ∈ outputs, l = n) : codeOob inputs outputs n = false := by
  unfold codeOob
  split
  · rfl
  · rename_i hemp
    have hoe : outputs ≠ [] := by
      intro h; apply hemp; rw [h]; rfl
    obtain ⟨hne, hi⟩ := hi hoe
    cases inputs with
    | nil => exact absurd rfl hne
    | cons a t =>
      have ha : a = n := hi a (List.mem_cons_self)
      simp only [Bool.or_eq_false_iff, List.any_eq_false, Bool.or_eq_true, decide_eq_true_eq]
      constructor
      · intro l hl
        have := hi l hl
        omega
      · intro l hl
        have := ho l hl
        omega

theorem getD_mem (s : List Sh) (i : Nat) (h : (s.getD i ⟨true, 0, 0⟩).len ≠ 0) :
    i < s.length ∧ s.getD i ⟨true, 0, 0⟩ ∈ s := by
  rw [List.getD_eq_getElem?_getD] at h ⊢
  by_cases hi : i < s.length
  · refine ⟨hi, ?_⟩
    rw [List.getElem?_eq_getElem hi]
    exact List.getElem_mem hi
  · exfalso
    apply h
    rw [List.getElem?_eq_none (by omega)]
    rfl


/-- present shards among the first `d + p` are at most the present data shards plus `p` -/
theorem count_split (f : Nat → Bool) (d p : Nat) :
    ((List.range (d + p)).filter f).length ≤ ((List.range d).filter f).length + p := by
  rw [List.range_add, List.filter_append, List.length_append]
  have := List.length_filter_le f (List.map (fun x => d + x) (List.range p))
  simp only [List.length_map, List.length_range] at this
  omega

/-- the shards selected by `g` among the missing ones, with `d ≤` number present: at most `p` -/
theorem count_missing (f g : Nat → Bool) (d p : Nat) (hg : ∀ i, g i = true → f i = false)
    (hnp : d ≤ ((List.range (d + p)).filter f).length) : ((List.range d).filter g).length ≤ p := by
  have h1 := count_split f d p
  have h2 := List.length_eq_countP_add_countP f (l := List.range d)
  have h3 : List.countP g (List.range d) ≤ List.countP (fun a => decide ¬f a = true) (List.range d) := by
    apply List.countP_mono_left
    intro x _ hx
    simp [hg x hx]
  rw [List.countP_eq_length_filter] at h2 h3
  rw [List.countP_eq_length_filter] at h3
  simp only [List.length_range] at h2
  rw [List.countP_eq_length_filter] at h2
  omega


theorem present_len (s : List Sh) (hc : checkShards s true = none) (i : Nat)
    (h : presentAt s i = true) : (shAt s i).len = shardSize s := by
  have h' : (s.getD i ⟨true, 0, 0⟩).len ≠ 0 := by simpa [presentAt, shAt] using h
  exact checkShards_len s true hc _ (getD_mem s i h').2 h'

theorem rsRegen_missing (d p : Nat) (s : List Sh) (dataOnly : Bool) (required : Option (List Bool))
    (i : Nat) (h : rsRegen d p s dataOnly required i = true) : presentAt s i = false := by
  unfold rsRegen at h
  simp only [Bool.and_eq_true, Bool.not_eq_true'] at h
  exact h.1

theorem rsPass1Oob_false (d p : Nat) (s : List Sh) (regen : Nat → Bool)
    (hreg : ∀ i, regen i = true → presentAt s i = false)
    (hc : checkShards s true = none)
    (hnp : d ≤ ((List.range (d + p)).filter (presentAt s)).length) :
    rsPass1Oob d p s regen = false := by
  unfold rsPass1Oob
  simp only [Bool.or_eq_false_iff, decide_eq_false_iff_not, Nat.not_lt]
  refine ⟨⟨?_, ?_⟩, ?_⟩
  · exact count_missing (presentAt s) _ d p hreg hnp
  · rw [List.any_eq_false]
    intro i _
    simp [resliceOob_false]
  · have hlen : (List.take d ((List.range (d + p)).filter (presentAt s))).length = d := by
      rw [List.length_take]; omega
    apply codeOob_false
    · intro hout
      have hd : 0 < d := by
        apply Nat.pos_of_ne_zero
        intro h0
        apply hout
        subst h0
        simp
      constructor
      · intro hnil
        have := congrArg List.length hnil
        simp only [List.length_append, List.length_map, hlen, List.length_replicate, List.length_nil] at this
        omega
      · intro l hl
        rw [hlen, Nat.sub_self, List.replicate_zero, List.append_nil, List.mem_map] at hl
        obtain ⟨i, hi, rfl⟩ := hl
        have hi' := List.mem_of_mem_take hi
        rw [List.mem_filter] at hi'
        exact present_len s hc i hi'.2
    · intro l hl
      exact List.eq_of_mem_replicate hl

theorem rsPass2Oob_false (d p : Nat) (s : List Sh) (dataOnly : Bool) (required : Option (List Bool))
    (hd : 0 < d) (hc : checkShards s true = none) (hdo : dataOnly = false)
    (hmask : ∀ l, required = some l → l.length = d + p) :
    rsPass2Oob d p s required (rsRegen d p s dataOnly required) = false := by
  unfold rsPass2Oob
  simp only [Bool.or_eq_false_iff, decide_eq_false_iff_not, Nat.not_lt]
  refine ⟨⟨?_, ?_⟩, ?_⟩
  · have := List.length_filter_le (fun j => !presentAt s (d + j) && reqAt required (d + j)) (List.range p)
    simpa using this
  · rw [List.any_eq_false]
    intro i _
    simp [resliceOob_false]
  · apply codeOob_false
    · intro hout
      constructor
      · intro hnil
        have := congrArg List.length hnil
        simp at this
        omega
      · -- some parity shard is an output: it is missing and requested
        have hex : ∃ j, j < p ∧ presentAt s (d + j) = false ∧ reqAt required (d + j) = true := by
          cases hf : (List.range p).filter (fun j => !presentAt s (d + j) && reqAt required (d + j)) with
          | nil => rw [hf] at hout; simp at hout
          | cons j t =>
            have hj : j ∈ (List.range p).filter (fun j => !presentAt s (d + j) && reqAt required (d + j)) := by
              rw [hf]; exact List.mem_cons_self
            rw [List.mem_filter, List.mem_range] at hj
            simp only [Bool.and_eq_true, Bool.not_eq_true'] at hj
            exact ⟨j, hj.1, hj.2.1, hj.2.2⟩
        obtain ⟨j, hjp, hjm, hjr⟩ := hex
        -- hence every missing data shard was regenerated
        have hregen : ∀ i, presentAt s i = false → rsRegen d p s dataOnly required i = true := by
          intro i hi
          unfold rsRegen
          simp only [hi, Bool.not_false, Bool.true_and, hdo, Bool.and_true, Bool.or_eq_true]
          cases required with
          | none => left; rfl
          | some l =>
            right
            unfold rsParityRequired
            simp only [List.any_eq_true]
            refine ⟨d + j, List.mem_range.mpr (by omega), ?_⟩
            have hl := hmask l rfl
            simp only [reqAt] at hjr
            simp only [hjm, Bool.not_false, Bool.true_and, Bool.and_eq_true, decide_eq_true_eq]
            exact ⟨⟨by omega, hjr⟩, by omega⟩
        intro l hl
        rw [List.mem_map] at hl
        obtain ⟨i, _, rfl⟩ := hl
        cases hp : presentAt s i with
        | true => simp [present_len s hc i hp]
        | false => simp [hregen i hp]
    · intro l hl
      exact List.eq_of_mem_replicate hl

theorem rsReconOob_false (d p : Nat) (s : List Sh) (dataOnly : Bool) (required : Option (List Bool))
    (hd : 0 < d) (hc : checkShards s true = none)
    (hnp : d ≤ ((List.range (d + p)).filter (presentAt s)).length)
    (hmask : ∀ l, required = some l → dataOnly = false → l.length = d + p) :
    rsReconOob d p s dataOnly required = false := by
  unfold rsReconOob
  simp only []
  rw [rsPass1Oob_false d p s _ (rsRegen_missing d p s dataOnly required) hc hnp]
  cases hdo : dataOnly with
  | true => rfl
  | false =>
    subst hdo
    rw [rsPass2Oob_false d p s false required hd hc rfl (fun l hl => hmask l hl rfl)]
    rfl

theorem leoReconOob_false (d p : Nat) (s : List Sh) (recoverAll : Bool)
    (hc : checkShards s true = none) : leoReconOob d p s recoverAll = false := by
  unfold leoReconOob
  simp only [Bool.or_eq_false_iff, List.any_eq_false]
  refine ⟨⟨?_, ?_⟩, ?_⟩
  · intro i _
    simp [resliceOob_false]
  · intro i _ h
    simp only [Bool.and_eq_true, decide_eq_true_eq] at h
    have := present_len s hc i h.1
    omega
  · intro i hi h
    simp only [Bool.and_eq_true, Bool.not_eq_true', decide_eq_true_eq] at h
    obtain ⟨hm, h⟩ := h
    rw [List.mem_range] at hi
    simp only [hm, Bool.false_eq_true, if_false, Bool.or_eq_true,
      decide_eq_true_eq] at h
    cases hr : recoverAll with
    | true => simp [hr] at h
    | false =>
      simp only [hr, Bool.false_eq_true, if_false] at hi
      simp [hr, hi] at h


/-- range facts used for the slice indices -/
theorem all_range_idx {α : Type} (l : List α) (n off : Nat) (h : off + n ≤ l.length) :
    ((List.range n).all fun j => (idx? l (off + j)).isSome) = true := by
  rw [List.all_eq_true]
  intro j hj
  have : j < n := List.mem_range.mp hj
  unfold idx?
  simp
  omega

theorem all_range_idx0 {α : Type} (l : List α) (n : Nat) (h : n ≤ l.length) :
    ((List.range n).all fun j => (idx? l j).isSome) = true := by
  have := all_range_idx l n 0 (by omega)
  simpa using this


/-- the model's own counting expressions -/
abbrev present (s : List Sh) (i : Nat) : Bool := (s.getD i ⟨true, 0, 0⟩).len ≠ 0
/-- number of present shards among the first `n` -/
abbrev countPresent (s : List Sh) (n : Nat) : Nat := ((List.range n).filter (present s)).length
/-- number of missing shards among the first `n` that the mask `l` asks for -/
abbrev missingRequired (s : List Sh) (n : Nat) (l : List Bool) : Nat :=
  ((List.range n).filter fun i => !present s i && i < l.length && l.getD i false).length

theorem countPresent_mono (s : List Sh) (d p : Nat) : countPresent s d ≤ countPresent s (d + p) :=
  ((List.range_sublist.mpr (Nat.le_add_right d p)).filter _).length_le


/-- turn the Boolean guards of the model into propositions and finish by linear arithmetic -/
local macro "guard_omega" : tactic => `(tactic|
  ((try simp only [Bool.or_eq_true, Bool.and_eq_true, decide_eq_true_eq, Option.isSome_none,
      Option.isSome_some, Bool.false_eq_true, false_and, and_false, or_false, false_or, true_and,
      and_true, Bool.not_eq_true', decide_eq_false_iff_not, Bool.not_true, Bool.not_false,
      decide_true, decide_false, not_true_eq_false, not_false_eq_true]); omega))

/-! ### the argument checks alone

`Checks.encode`, `Checks.reconstruct`, `Checks.encodeIdx`: the argument checking of the three
operations WITHOUT the slice expressions of the kernels (the model as it was before those were
added).  The theorems of this namespace are about the checks; the section after it shows that the
model in `RSV.Model.Api` — checks AND kernels — gives the same answers, and the theorems about the
model are then stated for `RSV.Model.Api.encode` etc. under the same names. -/
namespace Checks


/-- `Encode` / `Verify` (same checks) -/
def encode (k : Kind) (d p : Nat) (s : List Sh) : Outcome :=
  if s.length ≠ d + p then .err .tooFewShards
  else match checkShards s false with
    | some e => .err e
    | none => if leoK k && shardSize s % 64 ≠ 0 then .err .invalidShardSize else .ok

/-- `Reconstruct*`.  For the matrix codec the `required` mask is indexed at every missing shard
position `i < d+p` in the counting loop (guarded by `i < len(required)` since 7b8525f) and at
every data position in the decode loop. -/
def reconstruct (k : Kind) (d p : Nat) (s : List Sh) (m : RMode) : Outcome :=
  match k with
  | .rs8 =>
    let (dataOnly, required) : Bool × Option (List Bool) := match m with
      | .all => (false, none)
      | .data => (true, none)
      | .some r => ((match r with | some l => l.length ≠ d + p | none => true), r)
    if s.length ≠ d + p || (match required with | some l => l.length < d | none => false) then .err .tooFewShards
    else match checkShards s true with
      | some e => .err e
      | none =>
        let present (i : Nat) : Bool := (s.getD i ⟨true, 0, 0⟩).len ≠ 0
        let numberPresent := ((List.range (d + p)).filter present).length
        let dataPresent := ((List.range d).filter present).length
        -- counting loop: required[i] is read only when i < len(required)
        let missingRequired := match required with
          | none => 0
          | some l => ((List.range (d + p)).filter fun i => !present i && i < l.length && l.getD i false).length
        if numberPresent = d + p || (dataOnly && dataPresent = d) || (required.isSome && missingRequired = 0) then .ok
        else if numberPresent < d then .err .tooFewShards
        else
          -- decode loop: `required[iShard]` for iShard < d — in range because len(required) ≥ d
          let decodeIdxOk := match required with
            | none => true
            | some l => (List.range d).all fun i => (idx? l i).isSome
          -- parity loop (not dataOnly): `required[iShard]` for d ≤ iShard < d+p — len(required) = d+p there
          let parityIdxOk := dataOnly || (match required with
            | none => true
            | some l => (List.range p).all fun j => (idx? l (d + j)).isSome)
          if decodeIdxOk && parityIdxOk then .ok else .panic
  | _ =>
    -- Leopard: the mask only selects recoverAll
    if s.length ≠ d + p then .err .tooFewShards
    else match checkShards s true with
      | some e => .err e
      | none =>
        let recoverAll := match m with
          | .all => true | .data => false
          | .some r => (match r with | some l => l.length = d + p | none => false)
        let present (i : Nat) : Bool := (s.getD i ⟨true, 0, 0⟩).len ≠ 0
        let numberPresent := ((List.range (d + p)).filter present).length
        let dataPresent := ((List.range d).filter present).length
        if numberPresent = d + p || (!recoverAll && dataPresent = d) then .ok
        else if numberPresent < d then .err .tooFewShards
        else if shardSize s % 64 ≠ 0 then .err .invalidShardSize
        else .ok

/-- `EncodeIdx(dataShard, idx, parity)`; `idx` is any integer -/
def encodeIdx (k : Kind) (d p : Nat) (dataLen : Nat) (idx : Int) (parity : List Sh) : Outcome :=
  if leoK k then .err .notSupported
  else if parity.length ≠ p then .err .tooFewShards
  else if parity.length = 0 then .ok
  else if idx < 0 || idx ≥ d then .err .invShardNum
  else match checkShards parity false with
    | some e => .err e
    | none =>
      match idx? parity 0 with
      | none => .panic
      | some p0 => if p0.len ≠ dataLen then .err .shardSize else .ok

/-! ### totality -/

/-- no argument tuple makes `Encode` / `Verify` panic -/
theorem C16_encode_total (k : Kind) (d p : Nat) (s : List Sh) : encode k d p s ≠ .panic := by
  unfold encode
  split
  · simp
  · split
    · simp
    · split <;> simp

/-- no argument tuple makes `Reconstruct` / `ReconstructData` / `ReconstructSome` panic, including
masks of any length and nil masks -/
theorem C16_reconstruct_total (k : Kind) (d p : Nat) (s : List Sh) (m : RMode) :
    reconstruct k d p s m ≠ .panic := by
  cases k with
  | rs8 =>
    cases m with
    | all =>
      simp only [reconstruct]
      split
      · simp
      · split
        · simp
        · split
          · simp
          · split <;> simp
    | data =>
      simp only [reconstruct]
      split
      · simp
      · split
        · simp
        · split
          · simp
          · split <;> simp
    | some r =>
      cases r with
      | none =>
        simp only [reconstruct]
        split
        · simp
        · split
          · simp
          · split
            · simp
            · split <;> simp
      | some l =>
        simp only [reconstruct]
        split
        · simp
        · rename_i hcond
          simp only [Bool.or_eq_true, decide_eq_true_eq, not_or, Nat.not_lt] at hcond
          split
          · simp
          · split
            · simp
            · split
              · simp
              · have h1 := all_range_idx0 l d hcond.2
                by_cases hlen : l.length = d + p
                · have h2 := all_range_idx l p d (by omega)
                  simp [h1, h2]
                · simp [h1, hlen]
  | leo8 =>
    simp only [reconstruct]
    (repeat' split) <;> simp
  | leo16 =>
    simp only [reconstruct]
    (repeat' split) <;> simp

/-- no argument tuple (any integer `idx`) makes `EncodeIdx` panic -/
theorem C16_encodeIdx_total (k : Kind) (d p dataLen : Nat) (idx : Int) (parity : List Sh) :
    encodeIdx k d p dataLen idx parity ≠ .panic := by
  unfold encodeIdx
  split
  · simp
  · split
    · simp
    · split
      · simp
      · rename_i hne
        split
        · simp
        · split
          · simp
          · cases parity with
            | nil => exact absurd rfl hne
            | cons a t =>
              simp only [idx?, List.getElem?_cons_zero]
              split <;> simp


/-! ### documented errors: `Encode` / `Verify` -/

theorem C16_encode_wrong_count (k : Kind) (d p : Nat) (s : List Sh) (h : s.length ≠ d + p) :
    encode k d p s = .err .tooFewShards := by
  unfold encode; simp [h]

theorem C16_encode_no_data (k : Kind) (d p : Nat) (s : List Sh) (hl : s.length = d + p)
    (h : ∀ x ∈ s, x.len = 0) : encode k d p s = .err .shardNoData := by
  unfold encode checkShards
  simp [hl, shardSize_zero_of_all s h]

/-- two shards of different length, one of them non-empty: `ErrShardSize`.  This includes the case
`y.len = 0` (an empty or nil shard next to a non-empty one): nil is not allowed in `Encode`. -/
theorem C16_encode_unequal (k : Kind) (d p : Nat) (s : List Sh) (hl : s.length = d + p)
    (x y : Sh) (hxs : x ∈ s) (hys : y ∈ s) (hx : x.len ≠ 0) (hy : y.len ≠ x.len) :
    encode k d p s = .err .shardSize := by
  have hsz := shardSize_ne_zero s x hxs hx
  have hany : (s.any fun z => z.len ≠ shardSize s && (z.len ≠ 0 || !false)) = true := by
    rw [List.any_eq_true]
    by_cases hxe : x.len = shardSize s
    · exact ⟨y, hys, by simp; omega⟩
    · exact ⟨x, hxs, by simp [hxe]⟩
  unfold encode checkShards
  simp only [hl, hsz, hany]
  simp

/-- Leopard needs shards that are a multiple of 64 bytes -/
theorem C16_encode_leo_multiple (k : Kind) (hk : k ≠ .rs8) (d p : Nat) (s : List Sh)
    (hl : s.length = d + p) (hpos : 0 < d + p) (n : Nat) (hn : n ≠ 0) (hall : ∀ x ∈ s, x.len = n)
    (h64 : n % 64 ≠ 0) : encode k d p s = .err .invalidShardSize := by
  have hne : s ≠ [] := by intro h; rw [h] at hl; simp at hl; omega
  unfold encode
  simp only [hl, checkShards_of_all s n false hne hn hall, shardSize_of_all s n hne hall]
  simp [leoK, hk, h64]

/-- the accepted calls: the right number of shards, all of the same non-zero length (a multiple
of 64 for Leopard) -/
theorem C16_encode_ok (k : Kind) (d p : Nat) (s : List Sh)
    (hl : s.length = d + p) (hpos : 0 < d + p) (n : Nat) (hn : n ≠ 0) (hall : ∀ x ∈ s, x.len = n)
    (h64 : k = .rs8 ∨ n % 64 = 0) : encode k d p s = .ok := by
  have hne : s ≠ [] := by intro h; rw [h] at hl; simp at hl; omega
  unfold encode
  simp only [hl, checkShards_of_all s n false hne hn hall, shardSize_of_all s n hne hall]
  cases h64 with
  | inl h => simp [leoK, h]
  | inr h => simp [h]

/-- conversely `Encode` accepts nothing else -/
theorem C16_encode_ok_iff (k : Kind) (d p : Nat) (s : List Sh) :
    encode k d p s = .ok ↔
      s.length = d + p ∧ shardSize s ≠ 0 ∧ (∀ x ∈ s, x.len = shardSize s) ∧
        (k = .rs8 ∨ shardSize s % 64 = 0) := by
  constructor
  · intro h
    unfold encode at h
    split at h
    · simp at h
    · rename_i hl
      split at h
      · simp at h
      · rename_i hc
        unfold checkShards at hc
        simp only at hc
        split at hc
        · simp at hc
        · rename_i hz
          split at hc
          · simp at hc
          · rename_i hany
            refine ⟨by omega, hz, ?_, ?_⟩
            · intro x hx
              rw [List.any_eq_true] at hany
              apply Classical.byContradiction
              intro hne
              exact hany ⟨x, hx, by simp [hne]⟩
            · cases k with
              | rs8 => exact .inl rfl
              | leo8 => right; simp [leoK] at h; exact h
              | leo16 => right; simp [leoK] at h; exact h
  · intro ⟨hl, hz, hall, h64⟩
    have hpos : 0 < d + p := by
      obtain ⟨z, hz', _⟩ := shardSize_mem s hz
      rw [← hl]; exact List.length_pos_of_mem hz'
    exact C16_encode_ok k d p s hl hpos _ hz hall h64



/-! ### documented errors: `Reconstruct*` -/

theorem C16_reconstruct_wrong_count (k : Kind) (d p : Nat) (s : List Sh) (m : RMode)
    (h : s.length ≠ d + p) : reconstruct k d p s m = .err .tooFewShards := by
  cases k <;> simp [reconstruct, h]

/-- matrix codec: a `required` mask shorter than the number of data shards is rejected (7b8525f) -/
theorem C16_reconstruct_short_mask (d p : Nat) (s : List Sh) (l : List Bool) (h : l.length < d) :
    reconstruct .rs8 d p s (.some (some l)) = .err .tooFewShards := by
  simp [reconstruct, h]

/-- the shard-shape errors of `checkShards(shards, nilok = true)` are passed on -/
theorem C16_reconstruct_check (k : Kind) (d p : Nat) (s : List Sh) (m : RMode) (e : E)
    (hl : s.length = d + p) (hm : ∀ l, m = .some (some l) → d ≤ l.length)
    (hc : checkShards s true = some e) : reconstruct k d p s m = .err e := by
  cases k with
  | rs8 =>
    cases m with
    | all => simp [reconstruct, hl, hc]
    | data => simp [reconstruct, hl, hc]
    | some r =>
      cases r with
      | none => simp [reconstruct, hl, hc]
      | some l =>
        have := hm l rfl
        have h2 : ¬ l.length < d := by omega
        simp [reconstruct, hl, hc, h2]
  | leo8 => simp [reconstruct, hl, hc]
  | leo16 => simp [reconstruct, hl, hc]


/-- fewer than `d` shards present and the call is not a no-op: `ErrTooFewShards`.  With fewer than
`d` shards present the only possible no-op is a `ReconstructSome` mask (matrix codec) that asks for
none of the missing shards; that case is excluded by `hm`. -/
theorem C16_reconstruct_too_few (k : Kind) (d p : Nat) (s : List Sh) (m : RMode)
    (hl : s.length = d + p) (hc : checkShards s true = none)
    (hm : ∀ l, k = .rs8 → m = .some (some l) → d ≤ l.length ∧ missingRequired s (d + p) l ≠ 0)
    (h : countPresent s (d + p) < d) : reconstruct k d p s m = .err .tooFewShards := by
  have hle := countPresent_mono s d p
  have hsl : ¬ (s.length ≠ d + p) := by omega
  unfold countPresent present at h hle
  cases k with
  | rs8 =>
    cases m with
    | all =>
      simp only [reconstruct, hsl, hc]
      rw [if_neg (by simp), if_neg (by guard_omega), if_pos h]
    | data =>
      simp only [reconstruct, hsl, hc]
      rw [if_neg (by simp), if_neg (by guard_omega), if_pos h]
    | some r =>
      cases r with
      | none =>
        simp only [reconstruct, hsl, hc]
        rw [if_neg (by simp), if_neg (by guard_omega), if_pos h]
      | some l =>
        obtain ⟨h3, h4⟩ := hm l rfl rfl
        have h3' : ¬ l.length < d := by omega
        unfold missingRequired present at h4
        simp only [reconstruct, hsl, hc, h3']
        rw [if_neg (by simp), if_neg (by guard_omega), if_pos h]
  | leo8 =>
    cases m with
    | all =>
      simp only [reconstruct, hsl, hc]
      rw [if_neg (by simp), if_neg (by guard_omega), if_pos h]
    | data =>
      simp only [reconstruct, hsl, hc]
      rw [if_neg (by simp), if_neg (by guard_omega), if_pos h]
    | some r =>
      cases r <;>
      · simp only [reconstruct, hsl, hc]
        rw [if_neg (by simp), if_neg (by guard_omega), if_pos h]
  | leo16 =>
    cases m with
    | all =>
      simp only [reconstruct, hsl, hc]
      rw [if_neg (by simp), if_neg (by guard_omega), if_pos h]
    | data =>
      simp only [reconstruct, hsl, hc]
      rw [if_neg (by simp), if_neg (by guard_omega), if_pos h]
    | some r =>
      cases r <;>
      · simp only [reconstruct, hsl, hc]
        rw [if_neg (by simp), if_neg (by guard_omega), if_pos h]

/-- matrix codec, the accepted calls: right count, consistent shapes, a mask (if any) of at least
`d` entries, at least `d` shards present -/
theorem C16_reconstruct_ok_rs8 (d p : Nat) (s : List Sh) (m : RMode)
    (hl : s.length = d + p) (hc : checkShards s true = none)
    (hm : ∀ l, m = .some (some l) → d ≤ l.length)
    (h : d ≤ countPresent s (d + p)) : reconstruct .rs8 d p s m = .ok := by
  have hsl : ¬ (s.length ≠ d + p) := by omega
  have hn : ¬ countPresent s (d + p) < d := by omega
  unfold countPresent present at hn
  cases m with
  | all =>
    simp only [reconstruct, hsl, hc]
    rw [if_neg (by simp)]
    split
    · rfl
    · first | rfl | simp
  | data =>
    simp only [reconstruct, hsl, hc]
    rw [if_neg (by simp)]
    split
    · rfl
    · first | rfl | simp
  | some r =>
    cases r with
    | none =>
      simp only [reconstruct, hsl, hc]
      rw [if_neg (by simp)]
      split
      · rfl
      · first | rfl | simp
    | some l =>
      have h3 := hm l rfl
      have h3' : ¬ l.length < d := by omega
      simp only [reconstruct, hsl, hc, h3']
      rw [if_neg (by simp)]
      split
      · rfl
      · have h1 := all_range_idx0 l d h3
        by_cases hlen : l.length = d + p
        · have h2 := all_range_idx l p d (by omega)
          simp [h1, h2]
        · simp [h1, hlen]

/-- Leopard, the accepted calls -/
theorem C16_reconstruct_ok_leo (k : Kind) (hk : k ≠ .rs8) (d p : Nat) (s : List Sh) (m : RMode)
    (hl : s.length = d + p) (hc : checkShards s true = none) (h64 : shardSize s % 64 = 0)
    (h : d ≤ countPresent s (d + p)) : reconstruct k d p s m = .ok := by
  have hsl : ¬ (s.length ≠ d + p) := by omega
  have hn : ¬ countPresent s (d + p) < d := by omega
  have h64' : ¬ (shardSize s % 64 ≠ 0) := by omega
  unfold countPresent present at hn
  cases k with
  | rs8 => exact absurd rfl hk
  | leo8 =>
    simp only [reconstruct, hsl, hc]
    (repeat' split) <;> first | rfl | omega | contradiction
  | leo16 =>
    simp only [reconstruct, hsl, hc]
    (repeat' split) <;> first | rfl | omega | contradiction


/-! ### documented errors: `EncodeIdx`, `Update`, `Join`, `Split` -/

theorem C16_encodeIdx_not_supported (k : Kind) (hk : k ≠ .rs8) (d p dataLen : Nat) (idx : Int)
    (parity : List Sh) : encodeIdx k d p dataLen idx parity = .err .notSupported := by
  simp [encodeIdx, leoK, hk]

theorem C16_encodeIdx_wrong_count (d p dataLen : Nat) (idx : Int) (parity : List Sh)
    (h : parity.length ≠ p) : encodeIdx .rs8 d p dataLen idx parity = .err .tooFewShards := by
  simp [encodeIdx, leoK, h]

theorem C16_encodeIdx_bad_index (d p dataLen : Nat) (idx : Int) (parity : List Sh)
    (hl : parity.length = p) (hp : p ≠ 0) (h : idx < 0 ∨ (d : Int) ≤ idx) :
    encodeIdx .rs8 d p dataLen idx parity = .err .invShardNum := by
  subst hl
  simp only [encodeIdx, leoK]
  simp [hp]
  omega

/-- the three documented errors of `EncodeIdx` -/
theorem C16_encodeIdx_errors (k : Kind) (d p dataLen : Nat) (idx : Int) (parity : List Sh) :
    (k ≠ .rs8 → encodeIdx k d p dataLen idx parity = .err .notSupported) ∧
    (k = .rs8 → parity.length ≠ p → encodeIdx k d p dataLen idx parity = .err .tooFewShards) ∧
    (k = .rs8 → parity.length = p → p ≠ 0 → (idx < 0 ∨ (d : Int) ≤ idx) →
      encodeIdx k d p dataLen idx parity = .err .invShardNum) :=
  ⟨fun hk => C16_encodeIdx_not_supported k hk d p dataLen idx parity,
   fun hk h => hk ▸ C16_encodeIdx_wrong_count d p dataLen idx parity h,
   fun hk hl hp h => hk ▸ C16_encodeIdx_bad_index d p dataLen idx parity hl hp h⟩


end Checks

/-! ### the slice expressions of the kernels are never out of range

`Checks.encode`, `Checks.reconstruct`, `Checks.encodeIdx` are the argument checks alone; the model
(`RSV.Model.Api`) continues after them with the slice expressions of the kernels, an out-of-range
one being the outcome `panic`.  The theorems of this section say that this continuation never changes
the answer: for every encoder `New` can return (`0 < d`; Leopard needs nothing) the argument checks
are sufficient for all the slicing the kernels do. -/

private theorem take_lens (s : List Sh) (n d : Nat) (h : ∀ x ∈ s, x.len = n) :
    ∀ l ∈ (s.take d).map (·.len), l = n := by
  intro l hl
  rw [List.mem_map] at hl
  obtain ⟨x, hx, rfl⟩ := hl
  exact h x (List.mem_of_mem_take hx)

/-- `Encode`: the windows of `codeSomeShards` / the Leopard chunks fit every shard -/
theorem encode_eq_checks (k : Kind) (d p : Nat) (s : List Sh)
    (hd : Checks.encode k d p s = .ok → k = .rs8 → 0 < d) :
    encode k d p s = Checks.encode k d p s := by
  by_cases hl : s.length = d + p
  · cases hc : checkShards s false with
    | some e => simp [encode, Checks.encode, hl, hc]
    | none =>
      have hall := checkShards_false_all s hc
      have hsz := checkShards_size_ne_zero s false hc
      have hleo : leoEncodeOob s = false := by
        unfold leoEncodeOob
        rw [List.any_eq_false]
        intro x hx
        simp [hall x hx]
      cases k with
      | rs8 =>
        have hd' : 0 < d := hd (by simp [Checks.encode, hl, hc, leoK]) rfl
        obtain ⟨z, hz, _⟩ := shardSize_mem s hsz
        cases s with
        | nil => simp at hz
        | cons a t =>
          have hcode : codeOob (((a :: t).take d).map (·.len)) ((((a :: t).drop d).take p).map (·.len)) a.len
              = false := by
            have ha : a.len = shardSize (a :: t) := hall a List.mem_cons_self
            apply codeOob_false
            · intro _
              refine ⟨?_, ?_⟩
              · cases d with
                | zero => omega
                | succ d' => simp
              · rw [ha]; exact take_lens _ _ d hall
            · intro l hl'
              rw [List.mem_map] at hl'
              obtain ⟨x, hx, rfl⟩ := hl'
              rw [ha]
              exact hall x (List.mem_of_mem_drop (List.mem_of_mem_take hx))
          have h1 : ¬ ((a :: t).length < d ∨ (a :: t).length - d < p) := by omega
          simp only [encode, Checks.encode, hl, hc, leoK, idx?, List.getElem?_cons_zero, hcode]
          simp at h1 ⊢
      | leo8 => simp [encode, Checks.encode, hl, hc, leoK, hleo]
      | leo16 => simp [encode, Checks.encode, hl, hc, leoK, hleo]
  · simp [encode, Checks.encode, hl]

/-- one leaf of `reconstruct_eq_checks` (matrix codec, the mode fixed): walk through the common
guards; where the checks say `ok` the two coding passes are in range (`rsReconOob_false`) -/
local macro "recon_leaf_rs8" hd:ident hc:ident : tactic => `(tactic|
  (split
   · rfl
   · split
     · rename_i h; simp at h
     · split
       · rfl
       · split
         · rfl
         · split
           · rename_i h0 _ hA hB hI
             have hd' := $hd (by rw [if_neg h0, if_neg hA, if_neg hB, if_pos hI]) trivial
             rw [if_neg]
             rw [Bool.not_eq_true]
             apply rsReconOob_false
             · exact hd'
             · exact $hc
             · exact Nat.le_of_not_lt hB
             · intro l' hl' hdo
               cases hl' <;> simpa using hdo
           · rfl))

/-- `Reconstruct*`: both coding passes of the matrix codec (`rsReconOob`) and the Leopard decoder
(`leoReconOob`) stay in range -/
theorem reconstruct_eq_checks (k : Kind) (d p : Nat) (s : List Sh) (m : RMode)
    (hd : Checks.reconstruct k d p s m = .ok → k = .rs8 → 0 < d) :
    reconstruct k d p s m = Checks.reconstruct k d p s m := by
  by_cases hl : s.length = d + p
  · cases hc : checkShards s true with
    | some e =>
      cases k with
      | rs8 =>
        cases m with
        | all => simp [reconstruct, Checks.reconstruct, hl, hc]
        | data => simp [reconstruct, Checks.reconstruct, hl, hc]
        | some r => cases r <;> simp [reconstruct, Checks.reconstruct, hl, hc]
      | leo8 => simp [reconstruct, Checks.reconstruct, hl, hc]
      | leo16 => simp [reconstruct, Checks.reconstruct, hl, hc]
    | none =>
      have hidx : ((List.range (d + p)).all fun i => (idx? s i).isSome) = true :=
        all_range_idx0 s (d + p) (by omega)
      cases k with
      | rs8 =>
        cases m with
        | all =>
          simp only [reconstruct, Checks.reconstruct, hl, hc, hidx] at hd ⊢
          recon_leaf_rs8 hd hc
        | data =>
          simp only [reconstruct, Checks.reconstruct, hl, hc, hidx] at hd ⊢
          recon_leaf_rs8 hd hc
        | some r =>
          cases r with
          | none =>
            simp only [reconstruct, Checks.reconstruct, hl, hc, hidx] at hd ⊢
            recon_leaf_rs8 hd hc
          | some l =>
            simp only [reconstruct, Checks.reconstruct, hl, hc, hidx] at hd ⊢
            recon_leaf_rs8 hd hc
      | leo8 =>
        simp only [reconstruct, Checks.reconstruct, hl, hc, hidx]
        rw [leoReconOob_false _ _ _ _ hc]
        simp only [Bool.not_true, Bool.false_eq_true, if_false]
        rfl
      | leo16 =>
        simp only [reconstruct, Checks.reconstruct, hl, hc, hidx]
        rw [leoReconOob_false _ _ _ _ hc]
        simp only [Bool.not_true, Bool.false_eq_true, if_false]
        rfl
  · cases k with
    | rs8 =>
      cases m with
      | all => simp [reconstruct, Checks.reconstruct, hl]
      | data => simp [reconstruct, Checks.reconstruct, hl]
      | some r => cases r <;> simp [reconstruct, Checks.reconstruct, hl]
    | leo8 => simp [reconstruct, Checks.reconstruct, hl]
    | leo16 => simp [reconstruct, Checks.reconstruct, hl]

/-- `EncodeIdx`: the coefficient index and the windows of `dataShard` and of every parity shard stay
in range — for every argument tuple, any integer `idx` -/
theorem encodeIdx_eq_checks (k : Kind) (d p dataLen : Nat) (idx : Int) (parity : List Sh) :
    encodeIdx k d p dataLen idx parity = Checks.encodeIdx k d p dataLen idx parity := by
  unfold encodeIdx Checks.encodeIdx
  split
  · rfl
  · split
    · rfl
    · split
      · rfl
      · split
        · rfl
        · rename_i hidx
          cases hc : checkShards parity false with
          | some e => rfl
          | none =>
            simp only []
            cases h0 : idx? parity 0 with
            | none => rfl
            | some p0 =>
              simp only []
              split
              · rfl
              · rename_i hlen
                have hall := checkShards_false_all parity hc
                have hp0 : p0 ∈ parity := List.mem_of_getElem? h0
                have hany : (parity.any fun x => decide (x.len < dataLen)) = false := by
                  rw [List.any_eq_false]
                  intro x hx
                  have h1 := hall x hx
                  have h2 := hall p0 hp0
                  simp only [decide_eq_true_eq]
                  omega
                simp only [Bool.or_eq_true, decide_eq_true_eq, not_or] at hidx
                rw [if_neg (by simp only [Bool.or_eq_true, decide_eq_true_eq]; omega), hany]
                rfl

private theorem checks_encode_of_all (k : Kind) (d p : Nat) (s : List Sh) (n : Nat)
    (hl : s.length = d + p) (hne : s ≠ []) (hn : n ≠ 0) (hall : ∀ x ∈ s, x.len = n) :
    Checks.encode k d p s = if leoK k && n % 64 ≠ 0 then .err .invalidShardSize else .ok := by
  unfold Checks.encode
  simp only [hl, checkShards_of_all s n false hne hn hall, shardSize_of_all s n hne hall]
  simp

/-- Leopard `Verify` hands `Encode` the data shards and `p` new buffers of `len(shards[0])` bytes -/
private theorem verify_leo (k : Kind) (hk : k ≠ .rs8) (d p : Nat) (a : Sh) (t : List Sh)
    (hl : (a :: t).length = d + p) (hc : checkShards (a :: t) false = none) :
    encode k d p ((a :: t).take d ++ List.replicate p ⟨false, a.len, a.len⟩) =
      Checks.encode k d p (a :: t) := by
  have hall := checkShards_false_all (a :: t) hc
  have hsz := checkShards_size_ne_zero (a :: t) false hc
  have ha : a.len = shardSize (a :: t) := hall a List.mem_cons_self
  have hlen : ((a :: t).take d ++ List.replicate p (⟨false, a.len, a.len⟩ : Sh)).length = d + p := by
    rw [List.length_append, List.length_take, List.length_replicate]; omega
  have hne : (a :: t).take d ++ List.replicate p (⟨false, a.len, a.len⟩ : Sh) ≠ [] := by
    intro h
    have := congrArg List.length h
    rw [hlen] at this
    simp only [List.length_cons, List.length_nil] at hl this
    omega
  have hall' : ∀ x ∈ (a :: t).take d ++ List.replicate p (⟨false, a.len, a.len⟩ : Sh),
      x.len = shardSize (a :: t) := by
    intro x hx
    rw [List.mem_append] at hx
    cases hx with
    | inl hx => exact hall x (List.mem_of_mem_take hx)
    | inr hx => rw [List.eq_of_mem_replicate hx]; exact ha
  rw [encode_eq_checks k d p _ (fun _ h => absurd h hk),
    checks_encode_of_all k d p _ _ hlen hne hsz hall',
    checks_encode_of_all k d p (a :: t) _ hl (by simp) hsz hall]

/-- `Verify`: the parity is recomputed into new buffers; the windows fit the data shards -/
theorem verify_eq_checks (k : Kind) (d p : Nat) (s : List Sh)
    (hd : Checks.encode k d p s = .ok → k = .rs8 → 0 < d) :
    verify k d p s = Checks.encode k d p s := by
  by_cases hl : s.length = d + p
  · cases hc : checkShards s false with
    | some e => simp [verify, Checks.encode, hl, hc]
    | none =>
      have hall := checkShards_false_all s hc
      have hsz := checkShards_size_ne_zero s false hc
      obtain ⟨z, hz, _⟩ := shardSize_mem s hsz
      cases s with
      | nil => simp at hz
      | cons a t =>
        have ha : a.len = shardSize (a :: t) := hall a List.mem_cons_self
        cases k with
        | rs8 =>
          have hd' : 0 < d := hd (by simp [Checks.encode, hl, hc, leoK]) rfl
          have hcode : codeOob (((a :: t).take d).map (·.len)) (List.replicate p a.len) a.len = false := by
            apply codeOob_false
            · intro _
              refine ⟨?_, ?_⟩
              · cases d with
                | zero => omega
                | succ d' => simp
              · rw [ha]; exact take_lens _ _ d hall
            · intro l hl'
              exact List.eq_of_mem_replicate hl'
          have h1 : ¬ ((a :: t).length < d ∨ (a :: t).length - d < p) := by omega
          simp only [verify, Checks.encode, hl, hc, leoK, idx?, List.getElem?_cons_zero, hcode]
          simp at h1 ⊢
        | leo8 =>
          have h1 : ¬ (a :: t).length < d := by omega
          simp only [verify, hl, hc, leoK, idx?, List.getElem?_cons_zero]
          rw [← verify_leo .leo8 (by simp) d p a t hl hc]
          simp at h1 ⊢
          omega
        | leo16 =>
          have h1 : ¬ (a :: t).length < d := by omega
          simp only [verify, hl, hc, leoK, idx?, List.getElem?_cons_zero]
          rw [← verify_leo .leo16 (by simp) d p a t hl hc]
          simp at h1 ⊢
          omega
  · simp [verify, Checks.encode, hl]

/-- `Verify` answers like `Encode` (the driver's `ver` request is answered by `encode`) -/
theorem C16_verify_eq_encode (k : Kind) (d p : Nat) (s : List Sh) (hd : k = .rs8 → 0 < d) :
    verify k d p s = encode k d p s := by
  rw [verify_eq_checks k d p s (fun _ => hd), encode_eq_checks k d p s (fun _ => hd)]

private theorem encode_of_checks_err (k : Kind) (d p : Nat) (s : List Sh) (e : E)
    (h : Checks.encode k d p s = .err e) : encode k d p s = .err e := by
  rw [encode_eq_checks k d p s (by rw [h]; intro h'; cases h'), h]

private theorem reconstruct_of_checks_err (k : Kind) (d p : Nat) (s : List Sh) (m : RMode) (e : E)
    (h : Checks.reconstruct k d p s m = .err e) : reconstruct k d p s m = .err e := by
  rw [reconstruct_eq_checks k d p s m (by rw [h]; intro h'; cases h'), h]

/-! ### totality

`hd : k = .rs8 → 0 < d` — the matrix codec indexes `inputs[0]`; every encoder `New` returns has
`0 < d` (`C16_new_usable`), and an `example` in the non-vacuity section shows that the model does
reach `panic` for the non-existent encoder with `d = 0`. -/

/-- No argument tuple makes `Encode` panic — neither the argument checks nor the kernels
(`codeSomeShards` windows, Leopard chunks): the checks are sufficient for the slicing. -/
theorem C16_encode_total (k : Kind) (d p : Nat) (s : List Sh) (hd : k = .rs8 → 0 < d) :
    encode k d p s ≠ .panic := by
  rw [encode_eq_checks k d p s (fun _ => hd)]
  exact Checks.C16_encode_total k d p s

/-- no argument tuple makes `Verify` panic -/
theorem C16_verify_total (k : Kind) (d p : Nat) (s : List Sh) (hd : k = .rs8 → 0 < d) :
    verify k d p s ≠ .panic := by
  rw [verify_eq_checks k d p s (fun _ => hd)]
  exact Checks.C16_encode_total k d p s

/-- No argument tuple makes `Reconstruct` / `ReconstructData` / `ReconstructSome` panic, including
masks of any length and nil masks — neither the indexing of the mask nor the two coding passes of
the matrix codec (`rsReconOob`: the second pass reads ALL data shards, so every missing one must
have been regenerated whenever a parity shard is an output — the logic of fix 7b8525f) nor the
Leopard decoder (`leoReconOob`). -/
theorem C16_reconstruct_total (k : Kind) (d p : Nat) (s : List Sh) (m : RMode)
    (hd : k = .rs8 → 0 < d) : reconstruct k d p s m ≠ .panic := by
  rw [reconstruct_eq_checks k d p s m (fun _ => hd)]
  exact Checks.C16_reconstruct_total k d p s m

/-- no argument tuple (any integer `idx`) makes `EncodeIdx` panic — neither `parity[0]`, nor the
coefficient `r.parity[iRow][idx]`, nor the windows of `dataShard` and of the parity shards -/
theorem C16_encodeIdx_total (k : Kind) (d p dataLen : Nat) (idx : Int) (parity : List Sh) :
    encodeIdx k d p dataLen idx parity ≠ .panic := by
  rw [encodeIdx_eq_checks]
  exact Checks.C16_encodeIdx_total k d p dataLen idx parity

/-- The argument checks of `Update` (after fix bd2a6b4) imply that every slice expression of the
update kernels is in range: both `checkShards`, the equality of the two sizes, "no changed shard has
an empty old shard" and "no parity shard is empty" leave only slices of exactly `byteCount` bytes.
`hwf` (a nil new shard has length 0) connects the `!= nil` test of the check with the
`len(in) == 0` test of the kernels. -/
theorem updateOob_false (d : Nat) (s nw : List Sh) (hwf : ∀ x ∈ nw, x.wf = true)
    (hcs : checkShards s true = none) (hcn : checkShards nw true = none)
    (hsz : shardSize nw = shardSize s)
    (hb1 : updateMissingOld d s nw = false)
    (hb2 : (s.drop d).any (·.len == 0) = false) : updateOob d s nw = false := by
  rw [Bool.eq_false_iff]
  intro h
  unfold updateOob at h
  simp only [List.any_eq_true] at h
  obtain ⟨c, hc, h⟩ := h
  unfold updateMissingOld at hb1
  rw [List.any_eq_false] at hb1 hb2
  have h1 := hb1 c hc
  split at h
  · rename_i inp oldin hi ho
    rw [hi, ho] at h1
    simp only [idx?] at hi ho
    have hin : inp ∈ nw := List.mem_of_getElem? hi
    have hon : oldin ∈ s := List.mem_of_getElem? ho
    have hw := hwf inp hin
    simp only [Sh.wf, Bool.or_eq_true, Bool.not_eq_true', beq_iff_eq] at hw
    simp only [Bool.and_eq_true, Bool.or_eq_true, decide_eq_true_eq, List.any_eq_true] at h
    obtain ⟨hne, h⟩ := h
    have hnil : inp.isNil = false := by
      cases hw with
      | inl hw => exact hw
      | inr hw => exact absurd hw hne
    have holen : oldin.len ≠ 0 := by
      intro h0
      apply h1
      simp [hnil, h0]
    have e1 := checkShards_len nw true hcn inp hin hne
    have e2 := checkShards_len s true hcs oldin hon holen
    rcases h with ((h | h) | h) | ⟨out, hout, h⟩
    · omega
    · omega
    · omega
    · have hos : out ∈ s := List.mem_of_mem_drop hout
      have hol : out.len ≠ 0 := by
        intro h0
        apply hb2 out hout
        simp [h0]
      have e3 := checkShards_len s true hcs out hos hol
      omega
  · simp at h

private theorem update_idxOk (d p : Nat) (s nw : List Sh) (hs : s.length = d + p) (hn : nw.length = d) :
    ((List.range d).all fun i => (idx? nw i).isSome && (idx? s i).isSome) = true := by
  rw [List.all_eq_true]
  intro i hi
  have : i < d := List.mem_range.mp hi
  simp only [idx?, Bool.and_eq_true, Option.isSome_iff_exists]
  have h1 : i < nw.length := by omega
  have h2 : i < s.length := by omega
  exact ⟨⟨nw[i], by simp [h1]⟩, ⟨s[i], by simp [h2]⟩⟩

/-- No argument tuple makes `Update` panic — neither the indexing of the argument checks nor the
slicing of the update kernels (`updateOob`).

HYPOTHESIS `hwf`: every new shard is a shape some Go slice can have, in the one respect the record
`Sh` does not enforce: a nil slice has length 0 (`Sh.wf`, a decidable predicate).  No assumption on
`s`, none on capacities.  The hypothesis cannot be dropped (see the `example` with an ill-formed
shape in the non-vacuity section). -/
theorem C16_update_total (k : Kind) (d p : Nat) (s nw : List Sh) (hwf : ∀ x ∈ nw, x.wf = true) :
    update k d p s nw ≠ .panic := by
  unfold update
  split
  · simp
  · split
    · simp
    · rename_i hs
      split
      · simp
      · rename_i hn
        split
        · simp
        · rename_i hcs
          split
          · simp
          · rename_i hcn
            split
            · simp
            · rename_i hsz
              have hidx := update_idxOk d p s nw (by omega) (by omega)
              simp only [hidx]
              split
              · rename_i hf; simp at hf
              · split
                · simp
                · split
                  · simp
                  · rename_i hb1 hb2
                    rw [if_neg]
                    · simp
                    · rw [updateOob_false d s nw hwf hcs hcn (by omega) (Bool.eq_false_iff.mpr hb1)
                        (Bool.eq_false_iff.mpr hb2)]
                      simp

/-- the same, read the other way: the model of `Update` reaches `panic` only on a list of new shards
that contains a shape no Go slice has (flagged nil, length not 0) -/
theorem C16_update_panic_illformed (k : Kind) (d p : Nat) (s nw : List Sh)
    (h : update k d p s nw = .panic) : ∃ x ∈ nw, x.isNil = true ∧ x.len ≠ 0 := by
  apply Decidable.byContradiction
  intro hno
  apply C16_update_total k d p s nw _ h
  intro x hx
  simp only [Sh.wf, Bool.or_eq_true, Bool.not_eq_true', beq_iff_eq]
  cases hnil : x.isNil with
  | false => exact .inl rfl
  | true =>
    right
    apply Decidable.byContradiction
    intro hl
    exact hno ⟨x, hx, hnil, hl⟩

/-- `Split` never panics -/
theorem C16_split_total (k : Kind) (d p len : Nat) : split k d p len ≠ .panic := by
  unfold split; split <;> simp

/-- `Join` never panics, for any integer `outSize` -/
theorem C16_join_total (k : Kind) (d p : Nat) (s : List Sh) (outSize : Int) :
    join k d p s outSize ≠ .panic := by
  unfold join
  split
  · simp
  · split
    · simp
    · simp only []
      split
      · simp
      · split <;> simp


/-! ### documented errors: `Encode` / `Verify` -/

theorem C16_encode_wrong_count (k : Kind) (d p : Nat) (s : List Sh) (h : s.length ≠ d + p) :
    encode k d p s = .err .tooFewShards :=
  encode_of_checks_err k d p s _ (Checks.C16_encode_wrong_count k d p s h)

theorem C16_encode_no_data (k : Kind) (d p : Nat) (s : List Sh) (hl : s.length = d + p)
    (h : ∀ x ∈ s, x.len = 0) : encode k d p s = .err .shardNoData :=
  encode_of_checks_err k d p s _ (Checks.C16_encode_no_data k d p s hl h)

/-- two shards of different length, one of them non-empty: `ErrShardSize`.  This includes the case
`y.len = 0` (an empty or nil shard next to a non-empty one): nil is not allowed in `Encode`. -/
theorem C16_encode_unequal (k : Kind) (d p : Nat) (s : List Sh) (hl : s.length = d + p)
    (x y : Sh) (hxs : x ∈ s) (hys : y ∈ s) (hx : x.len ≠ 0) (hy : y.len ≠ x.len) :
    encode k d p s = .err .shardSize :=
  encode_of_checks_err k d p s _ (Checks.C16_encode_unequal k d p s hl x y hxs hys hx hy)

/-- Leopard needs shards that are a multiple of 64 bytes -/
theorem C16_encode_leo_multiple (k : Kind) (hk : k ≠ .rs8) (d p : Nat) (s : List Sh)
    (hl : s.length = d + p) (hpos : 0 < d + p) (n : Nat) (hn : n ≠ 0) (hall : ∀ x ∈ s, x.len = n)
    (h64 : n % 64 ≠ 0) : encode k d p s = .err .invalidShardSize :=
  encode_of_checks_err k d p s _ (Checks.C16_encode_leo_multiple k hk d p s hl hpos n hn hall h64)

/-- the accepted calls: the right number of shards, all of the same non-zero length (a multiple
of 64 for Leopard) -/
theorem C16_encode_ok (k : Kind) (d p : Nat) (s : List Sh) (hd : k = .rs8 → 0 < d)
    (hl : s.length = d + p) (hpos : 0 < d + p) (n : Nat) (hn : n ≠ 0) (hall : ∀ x ∈ s, x.len = n)
    (h64 : k = .rs8 ∨ n % 64 = 0) : encode k d p s = .ok := by
  rw [encode_eq_checks k d p s (fun _ => hd)]
  exact Checks.C16_encode_ok k d p s hl hpos n hn hall h64

/-- conversely `Encode` accepts nothing else -/
theorem C16_encode_ok_iff (k : Kind) (d p : Nat) (s : List Sh) (hd : k = .rs8 → 0 < d) :
    encode k d p s = .ok ↔
      s.length = d + p ∧ shardSize s ≠ 0 ∧ (∀ x ∈ s, x.len = shardSize s) ∧
        (k = .rs8 ∨ shardSize s % 64 = 0) := by
  rw [encode_eq_checks k d p s (fun _ => hd)]
  exact Checks.C16_encode_ok_iff k d p s

/-! ### documented errors: `Reconstruct*` -/

theorem C16_reconstruct_wrong_count (k : Kind) (d p : Nat) (s : List Sh) (m : RMode)
    (h : s.length ≠ d + p) : reconstruct k d p s m = .err .tooFewShards :=
  reconstruct_of_checks_err k d p s m _ (Checks.C16_reconstruct_wrong_count k d p s m h)

/-- matrix codec: a `required` mask shorter than the number of data shards is rejected (7b8525f) -/
theorem C16_reconstruct_short_mask (d p : Nat) (s : List Sh) (l : List Bool) (h : l.length < d) :
    reconstruct .rs8 d p s (.some (some l)) = .err .tooFewShards :=
  reconstruct_of_checks_err _ d p s _ _ (Checks.C16_reconstruct_short_mask d p s l h)

/-- the shard-shape errors of `checkShards(shards, nilok = true)` are passed on -/
theorem C16_reconstruct_check (k : Kind) (d p : Nat) (s : List Sh) (m : RMode) (e : E)
    (hl : s.length = d + p) (hm : ∀ l, m = .some (some l) → d ≤ l.length)
    (hc : checkShards s true = some e) : reconstruct k d p s m = .err e :=
  reconstruct_of_checks_err k d p s m _ (Checks.C16_reconstruct_check k d p s m e hl hm hc)

/-- fewer than `d` shards present and the call is not a no-op: `ErrTooFewShards`.  With fewer than
`d` shards present the only possible no-op is a `ReconstructSome` mask (matrix codec) that asks for
none of the missing shards; that case is excluded by `hm`. -/
theorem C16_reconstruct_too_few (k : Kind) (d p : Nat) (s : List Sh) (m : RMode)
    (hl : s.length = d + p) (hc : checkShards s true = none)
    (hm : ∀ l, k = .rs8 → m = .some (some l) → d ≤ l.length ∧ missingRequired s (d + p) l ≠ 0)
    (h : countPresent s (d + p) < d) : reconstruct k d p s m = .err .tooFewShards :=
  reconstruct_of_checks_err k d p s m _ (Checks.C16_reconstruct_too_few k d p s m hl hc hm h)

/-- matrix codec, the accepted calls: right count, consistent shapes, a mask (if any) of at least
`d` entries, at least `d` shards present -/
theorem C16_reconstruct_ok_rs8 (d p : Nat) (s : List Sh) (m : RMode) (hd : 0 < d)
    (hl : s.length = d + p) (hc : checkShards s true = none)
    (hm : ∀ l, m = .some (some l) → d ≤ l.length)
    (h : d ≤ countPresent s (d + p)) : reconstruct .rs8 d p s m = .ok := by
  rw [reconstruct_eq_checks .rs8 d p s m (fun _ _ => hd)]
  exact Checks.C16_reconstruct_ok_rs8 d p s m hl hc hm h

/-- Leopard, the accepted calls -/
theorem C16_reconstruct_ok_leo (k : Kind) (hk : k ≠ .rs8) (d p : Nat) (s : List Sh) (m : RMode)
    (hl : s.length = d + p) (hc : checkShards s true = none) (h64 : shardSize s % 64 = 0)
    (h : d ≤ countPresent s (d + p)) : reconstruct k d p s m = .ok := by
  rw [reconstruct_eq_checks k d p s m (fun _ h' => absurd h' hk)]
  exact Checks.C16_reconstruct_ok_leo k hk d p s m hl hc h64 h

/-! ### documented errors: `EncodeIdx`, `Update`, `Join`, `Split` -/

theorem C16_encodeIdx_not_supported (k : Kind) (hk : k ≠ .rs8) (d p dataLen : Nat) (idx : Int)
    (parity : List Sh) : encodeIdx k d p dataLen idx parity = .err .notSupported := by
  rw [encodeIdx_eq_checks]; exact Checks.C16_encodeIdx_not_supported k hk d p dataLen idx parity

theorem C16_encodeIdx_wrong_count (d p dataLen : Nat) (idx : Int) (parity : List Sh)
    (h : parity.length ≠ p) : encodeIdx .rs8 d p dataLen idx parity = .err .tooFewShards := by
  rw [encodeIdx_eq_checks]; exact Checks.C16_encodeIdx_wrong_count d p dataLen idx parity h

theorem C16_encodeIdx_bad_index (d p dataLen : Nat) (idx : Int) (parity : List Sh)
    (hl : parity.length = p) (hp : p ≠ 0) (h : idx < 0 ∨ (d : Int) ≤ idx) :
    encodeIdx .rs8 d p dataLen idx parity = .err .invShardNum := by
  rw [encodeIdx_eq_checks]; exact Checks.C16_encodeIdx_bad_index d p dataLen idx parity hl hp h

/-- the three documented errors of `EncodeIdx` -/
theorem C16_encodeIdx_errors (k : Kind) (d p dataLen : Nat) (idx : Int) (parity : List Sh) :
    (k ≠ .rs8 → encodeIdx k d p dataLen idx parity = .err .notSupported) ∧
    (k = .rs8 → parity.length ≠ p → encodeIdx k d p dataLen idx parity = .err .tooFewShards) ∧
    (k = .rs8 → parity.length = p → p ≠ 0 → (idx < 0 ∨ (d : Int) ≤ idx) →
      encodeIdx k d p dataLen idx parity = .err .invShardNum) :=
  ⟨fun hk => C16_encodeIdx_not_supported k hk d p dataLen idx parity,
   fun hk h => hk ▸ C16_encodeIdx_wrong_count d p dataLen idx parity h,
   fun hk hl hp h => hk ▸ C16_encodeIdx_bad_index d p dataLen idx parity hl hp h⟩

/-- the accepted calls of `EncodeIdx`: `p` parity shards of the length of the data shard (not 0),
`0 ≤ idx < d` -/
theorem C16_encodeIdx_ok (d p dataLen : Nat) (idx : Int) (parity : List Sh)
    (hl : parity.length = p) (hp : p ≠ 0) (hi : 0 ≤ idx ∧ idx < d) (hn : dataLen ≠ 0)
    (hall : ∀ x ∈ parity, x.len = dataLen) : encodeIdx .rs8 d p dataLen idx parity = .ok := by
  have hne : parity ≠ [] := by intro h; rw [h] at hl; simp at hl; omega
  have hc := checkShards_of_all parity dataLen false hne hn hall
  cases parity with
  | nil => exact absurd rfl hne
  | cons a t =>
    have ha := hall a List.mem_cons_self
    have hany : ((a :: t).any fun x => decide (x.len < dataLen)) = false := by
      rw [List.any_eq_false]
      intro x hx
      simp [hall x hx]
    have h1 : ¬ (idx < 0 ∨ (d : Int) ≤ idx) := by omega
    have h2 : ¬ (idx < 0 ∨ (d : Int) < idx + 1) := by omega
    simp only [encodeIdx, leoK, hl, hc, idx?, List.getElem?_cons_zero, ha, hany]
    simp [h1, h2]

theorem C16_update_not_supported (k : Kind) (hk : k ≠ .rs8) (d p : Nat) (s nw : List Sh) :
    update k d p s nw = .err .notSupported := by
  simp [update, leoK, hk]

theorem C16_update_wrong_count (d p : Nat) (s nw : List Sh)
    (h : s.length ≠ d + p ∨ nw.length ≠ d) : update .rs8 d p s nw = .err .tooFewShards := by
  simp only [update, leoK]
  cases h with
  | inl h => simp [h]
  | inr h => simp [h]

/-- the new data shards must have the size of the existing shards (fix 0ba1869) -/
theorem C16_update_size_mismatch (d p : Nat) (s nw : List Sh)
    (hl : s.length = d + p) (hn : nw.length = d)
    (hcs : checkShards s true = none) (hcn : checkShards nw true = none)
    (h : shardSize nw ≠ shardSize s) : update .rs8 d p s nw = .err .shardSize := by
  simp [update, leoK, hl, hn, hcs, hcn, h]

/-- a new shard that is not nil over an old shard without data — nil OR zero-length — is
`ErrInvalidInput` (fix bd2a6b4; a zero-length old shard used to reach the kernels) -/
theorem C16_update_empty_old (d p : Nat) (s nw : List Sh)
    (hl : s.length = d + p) (hn : nw.length = d)
    (hcs : checkShards s true = none) (hcn : checkShards nw true = none)
    (hsz : shardSize nw = shardSize s)
    (i : Nat) (hi : i < d) (a b : Sh) (ha : nw[i]? = some a) (hb : s[i]? = some b)
    (hna : a.isNil = false) (hb0 : b.len = 0) : update .rs8 d p s nw = .err .invalidInput := by
  have hidx := update_idxOk d p s nw hl hn
  have hbad : updateMissingOld d s nw = true := by
    unfold updateMissingOld
    rw [List.any_eq_true]
    refine ⟨i, List.mem_range.mpr hi, ?_⟩
    simp only [idx?, ha, hb]
    simp [hna, hb0]
  simp only [update, leoK, hl, hn, hcs, hcn, hsz, hidx, hbad]
  simp

/-- a parity shard without data — nil OR zero-length — is `ErrInvalidInput` (fix bd2a6b4) -/
theorem C16_update_empty_parity (d p : Nat) (s nw : List Sh)
    (hl : s.length = d + p) (hn : nw.length = d)
    (hcs : checkShards s true = none) (hcn : checkShards nw true = none)
    (hsz : shardSize nw = shardSize s)
    (o : Sh) (ho : o ∈ s.drop d) (ho0 : o.len = 0) : update .rs8 d p s nw = .err .invalidInput := by
  have hidx := update_idxOk d p s nw hl hn
  have hpar : ((s.drop d).any (·.len == 0)) = true := by
    rw [List.any_eq_true]
    exact ⟨o, ho, by simp [ho0]⟩
  simp only [update, leoK, hl, hn, hcs, hcn, hsz, hidx, hpar]
  simp

/-- the accepted calls of `Update`: right counts, consistent shapes of one common size, every new
shard that is not nil has an old shard with data, every parity shard has data.  (The bounds
condition `updateOob` takes nothing away from them.) -/
theorem C16_update_ok (d p : Nat) (s nw : List Sh) (hwf : ∀ x ∈ nw, x.wf = true)
    (hl : s.length = d + p) (hn : nw.length = d)
    (hcs : checkShards s true = none) (hcn : checkShards nw true = none)
    (hsz : shardSize nw = shardSize s)
    (hold : ∀ i a b, i < d → nw[i]? = some a → s[i]? = some b → a.isNil = false → b.len ≠ 0)
    (hpar : ∀ o ∈ s.drop d, o.len ≠ 0) : update .rs8 d p s nw = .ok := by
  have hidx := update_idxOk d p s nw hl hn
  have hb1 : updateMissingOld d s nw = false := by
    unfold updateMissingOld
    rw [List.any_eq_false]
    intro i hi
    have hi' : i < d := List.mem_range.mp hi
    split
    · rename_i a b ha hb
      simp only [idx?] at ha hb
      cases hna : a.isNil with
      | true => simp
      | false => simp [hold i a b hi' ha hb hna]
    · simp
  have hb2 : ((s.drop d).any (·.len == 0)) = false := by
    rw [List.any_eq_false]
    intro o ho
    simp [hpar o ho]
  have hoob := updateOob_false d s nw hwf hcs hcn hsz hb1 hb2
  simp only [update, leoK, hl, hn, hcs, hcn, hsz, hidx, hb1, hb2, hoob]
  simp

theorem C16_update_errors (k : Kind) (d p : Nat) (s nw : List Sh) :
    (k ≠ .rs8 → update k d p s nw = .err .notSupported) ∧
    (k = .rs8 → (s.length ≠ d + p ∨ nw.length ≠ d) → update k d p s nw = .err .tooFewShards) ∧
    (k = .rs8 → s.length = d + p → nw.length = d → checkShards s true = none →
      checkShards nw true = none → shardSize nw ≠ shardSize s →
      update k d p s nw = .err .shardSize) :=
  ⟨fun hk => C16_update_not_supported k hk d p s nw,
   fun hk h => hk ▸ C16_update_wrong_count d p s nw h,
   fun hk hl hn hcs hcn h => hk ▸ C16_update_size_mismatch d p s nw hl hn hcs hcn h⟩

theorem C16_join_too_few (k : Kind) (d p : Nat) (s : List Sh) (outSize : Int) (h : s.length < d) :
    join k d p s outSize = .err .tooFewShards := by
  simp [join, h]

/-- a negative `outSize` is `ErrShortData`, not a `make` panic (fix 33b1873) -/
theorem C16_join_negative (k : Kind) (d p : Nat) (s : List Sh) (outSize : Int)
    (hl : d ≤ s.length) (h : outSize < 0) : join k d p s outSize = .err .shortData := by
  have : ¬ s.length < d := by omega
  simp [join, this, h]

theorem C16_join_errors (k : Kind) (d p : Nat) (s : List Sh) (outSize : Int) :
    (s.length < d → join k d p s outSize = .err .tooFewShards) ∧
    (d ≤ s.length → outSize < 0 → join k d p s outSize = .err .shortData) :=
  ⟨C16_join_too_few k d p s outSize, C16_join_negative k d p s outSize⟩

theorem C16_split_empty (k : Kind) (d p : Nat) : split k d p 0 = .err .shortData := rfl

theorem C16_split_ok (k : Kind) (d p len : Nat) (h : len ≠ 0) : split k d p len = .ok := by
  simp [split, h]


/-! ### `ceilPow2` -/

private theorem ceilPow2_fold (n : Nat) : ∀ (m a acc : Nat), (acc = 2 ^ a ∨ n ≤ acc) →
    ((List.range' a m).foldl (fun acc k => if acc < n then 2 ^ (k + 1) else acc) acc = 2 ^ (a + m) ∨
      n ≤ (List.range' a m).foldl (fun acc k => if acc < n then 2 ^ (k + 1) else acc) acc) := by
  intro m
  induction m with
  | zero => intro a acc h; simpa using h
  | succ m ih =>
    intro a acc h
    rw [List.range'_succ, List.foldl_cons]
    have := ih (a + 1) (if acc < n then 2 ^ (a + 1) else acc) (by
      by_cases hlt : acc < n
      · simp [hlt]
      · simp only [hlt, if_false]; right; omega)
    rw [show a + (m + 1) = a + 1 + m by omega]
    exact this

/-- `ceilPow2 n` is at least `n` (in the range the library uses it) -/
theorem le_ceilPow2 (n : Nat) (h : n ≤ 2 ^ 18) : n ≤ ceilPow2 n := by
  unfold ceilPow2
  rw [List.range_eq_range']
  have := ceilPow2_fold n 18 0 1 (.inl rfl)
  omega

/-! ### `New` / `NewStream` over 64-bit integers -/

/-- `wrap64` on the sum of two 64-bit integers: the three ranges -/
theorem wrap64_cases (x : Int) (hlo : -2 ^ 64 ≤ x) (hhi : x < 2 ^ 64) :
    (x < -2 ^ 63 ∧ wrap64 x = x + 2 ^ 64) ∨ (-2 ^ 63 ≤ x ∧ x < 2 ^ 63 ∧ wrap64 x = x) ∨
      (2 ^ 63 ≤ x ∧ wrap64 x = x - 2 ^ 64) := by
  unfold wrap64
  simp only
  split <;> omega

theorem wrap64_id (x : Int) (hlo : -2 ^ 63 ≤ x) (hhi : x < 2 ^ 63) : wrap64 x = x := by
  have := wrap64_cases x (by omega) (by omega); omega

theorem wrap64_range (x : Int) : -2 ^ 63 ≤ wrap64 x ∧ wrap64 x < 2 ^ 63 := by
  unfold wrap64
  simp only
  split <;> omega

theorem newFF_ne_panic (order : Nat) (k : Kind) (d p : Int) : newFF order k d p ≠ .panic := by
  unfold newFF
  (repeat' split) <;> simp

/-- `New` never panics — for every pair of integers (a fortiori every pair of 64-bit integers) and
every option: no branch of the constructor computes an index or a length that can fail (a
wrapped-around non-positive `totalShards` is rejected before `make([][]byte, totalShards)`,
fix a37e7db). -/
theorem C16_new_total_int (d p : Int) (leo : Leo) (fam : Fam) : new d p leo fam ≠ .panic := by
  unfold new
  simp only
  split
  · exact newFF_ne_panic _ _ _ _
  · split
    · exact newFF_ne_panic _ _ _ _
    · (repeat' split) <;> simp

theorem C16_new_total (d p : Int) (_hd : -2 ^ 63 ≤ d ∧ d < 2 ^ 63) (_hp : -2 ^ 63 ≤ p ∧ p < 2 ^ 63)
    (leo : Leo) (fam : Fam) : new d p leo fam ≠ .panic :=
  C16_new_total_int d p leo fam

theorem C16_newStream_total_int (d p : Int) (leo : Leo) (fam : Fam) :
    newStream d p leo fam ≠ .panic := by
  have := C16_new_total_int d p leo fam
  unfold newStream
  split
  · simp
  · split <;> simp_all

theorem C16_newStream_total (d p : Int) (_hd : -2 ^ 63 ≤ d ∧ d < 2 ^ 63)
    (_hp : -2 ^ 63 ≤ p ∧ p < 2 ^ 63) (leo : Leo) (fam : Fam) : newStream d p leo fam ≠ .panic :=
  C16_newStream_total_int d p leo fam

/-- never a Leopard encoder behind a stream: the type assertion in `NewStream` cannot fail -/
theorem C16_newStream_kind (d p : Int) (leo : Leo) (fam : Fam) (k : Kind)
    (h : newStream d p leo fam = .enc k) : k = .rs8 := by
  unfold newStream at h
  split at h
  · simp at h
  · split at h
    · simp at h; exact h.symm
    · simp at h
    · rename_i o h1 h2
      cases k with
      | rs8 => rfl
      | leo8 => exact absurd h (h2 _)
      | leo16 => exact absurd h (h2 _)

theorem newFF_enc (order : Nat) (k k' : Kind) (d p : Int) (h : newFF order k d p = .enc k') :
    k' = k ∧ 0 < d ∧ 0 < p ∧ d ≤ order ∧ p ≤ order ∧ d + (ceilPow2 p.toNat : Int) ≤ order := by
  unfold newFF at h
  split at h
  · simp at h
  · rename_i h1
    split at h
    · simp at h
    · rename_i h2
      simp only [Bool.or_eq_true, decide_eq_true_eq, not_or, Int.not_lt, Int.not_le] at h1 h2
      simp at h
      exact ⟨h.symm, by omega, by omega, by omega, by omega, by omega⟩


/-- inversion of `New`: what is known when an encoder is returned (any integers) -/
theorem new_enc_inv (d p : Int) (leo : Leo) (fam : Fam) (k : Kind) (h : new d p leo fam = .enc k) :
    (k = .leo16 ∧ 0 < d ∧ 0 < p ∧ p ≤ 65536 ∧ d + (ceilPow2 p.toNat : Int) ≤ 65536 ∧
        (leo = .gf16 ∨ 256 < wrap64 (d + p))) ∨
    (k = .leo8 ∧ 0 < d ∧ 0 < p ∧ p ≤ 256 ∧ d + (ceilPow2 p.toNat : Int) ≤ 256 ∧ leo = .always ∧
        wrap64 (d + p) ≤ 256) ∨
    (k = .rs8 ∧ 0 < d ∧ 0 ≤ p ∧ wrap64 (d + p) ≤ 256 ∧ (0 < p → 0 < wrap64 (d + p)) ∧
        (p = 0 ∨ leo = .asNeeded)) := by
  unfold new at h
  simp only at h
  split at h
  · rename_i h2
    obtain ⟨rfl, a, b, _, hpo, f⟩ := newFF_enc _ _ _ _ _ h
    left
    simp only [Bool.and_eq_true, Bool.or_eq_true, decide_eq_true_eq] at h2
    refine ⟨rfl, a, b, by omega, by omega, ?_⟩
    cases h2 with
    | inl h2 => exact .inl h2.1
    | inr h2 => exact .inr h2
  · rename_i h2
    split at h
    · rename_i h3
      obtain ⟨rfl, a, b, _, hpo, f⟩ := newFF_enc _ _ _ _ _ h
      right; left
      simp only [Bool.and_eq_true, Bool.or_eq_true, decide_eq_true_eq, not_or, Int.not_lt] at h2 h3
      exact ⟨rfl, a, b, by omega, by omega, h3.1, h2.2⟩
    · rename_i h3
      right; right
      simp only [Bool.and_eq_true, Bool.or_eq_true, decide_eq_true_eq, not_and, not_or,
        Int.not_lt] at h2 h3
      split at h
      · simp at h
      · rename_i h4
        simp only [Bool.or_eq_true, decide_eq_true_eq, not_or, Int.not_lt, Int.not_le] at h4
        have hleo : p = 0 ∨ leo = .asNeeded := by
          by_cases hp0 : p = 0
          · exact .inl hp0
          · right
            have hpp : 0 < p := by omega
            cases leo with
            | asNeeded => rfl
            | gf16 => have := h2.1 rfl; omega
            | always => have := h3 rfl; omega
        have htot : 0 < p → 0 < wrap64 (d + p) := by
          intro hpp
          rw [if_neg (by omega)] at h
          apply Classical.byContradiction
          intro hn
          have hn' : wrap64 (d + p) ≤ 0 := by omega
          cases fam <;> simp [hn'] at h
        have hk : k = .rs8 := by
          (repeat' split at h) <;> simp at h <;> exact h.symm
        exact ⟨hk, h4.1, h4.2, h2.2, htot, hleo⟩

/-- every encoder `New` returns is usable: `1 ≤ d`, `0 ≤ p`, `d + p ≤ 256` for the matrix codec,
and for Leopard `1 ≤ p` and `d + ceilPow2 p` within the field order (FFT indices in range) -/
theorem C16_new_usable (d p : Int) (hd : -2 ^ 63 ≤ d ∧ d < 2 ^ 63) (hp : -2 ^ 63 ≤ p ∧ p < 2 ^ 63)
    (leo : Leo) (fam : Fam) (k : Kind) (h : new d p leo fam = .enc k) :
    0 ≤ d ∧ 0 ≤ p ∧ usable k d.toNat p.toNat = true := by
  have hw := wrap64_cases (d + p) (by omega) (by omega)
  rcases new_enc_inv d p leo fam k h with ⟨rfl, a, b, _, c, _⟩ | ⟨rfl, a, b, _, c, _⟩ | ⟨rfl, a, b, c, e, _⟩
  · refine ⟨by omega, by omega, ?_⟩
    simp only [usable, Bool.and_eq_true, decide_eq_true_eq]
    omega
  · refine ⟨by omega, by omega, ?_⟩
    simp only [usable, Bool.and_eq_true, decide_eq_true_eq]
    omega
  · refine ⟨by omega, by omega, ?_⟩
    simp only [usable, Bool.and_eq_true, decide_eq_true_eq]
    omega


/-! ### documented results of `New` -/

theorem newFF_inv (order : Nat) (k : Kind) (d p : Int) (h : d ≤ 0 ∨ p ≤ 0) :
    newFF order k d p = .err .invShardNum := by
  unfold newFF
  rw [if_pos]
  simpa using h

theorem newFF_max (order : Nat) (k : Kind) (d p : Int) (hd : 0 < d) (hp : 0 < p)
    (h : (order : Int) < d + (ceilPow2 p.toNat : Int)) : newFF order k d p = .err .maxShardNum := by
  unfold newFF
  rw [if_neg (by simp; omega), if_pos]
  simp only [Bool.or_eq_true, decide_eq_true_eq]
  omega

theorem newFF_ok (order : Nat) (k : Kind) (d p : Int) (hd : 0 < d) (hp : 0 < p) (hpo : p ≤ order)
    (h : d + (ceilPow2 p.toNat : Int) ≤ order) : newFF order k d p = .enc k := by
  have : 0 ≤ (ceilPow2 p.toNat : Int) := Int.natCast_nonneg _
  unfold newFF
  rw [if_neg (by simp; omega), if_neg]
  simp only [Bool.or_eq_true, decide_eq_true_eq]
  omega

theorem newFF_max_count (order : Nat) (k : Kind) (d p : Int) (hd : 0 < d) (hp : 0 < p)
    (h : (order : Int) < d ∨ (order : Int) < p) : newFF order k d p = .err .maxShardNum := by
  unfold newFF
  rw [if_neg (by simp; omega), if_pos]
  simp only [Bool.or_eq_true, decide_eq_true_eq]
  omega

/-- `dataShards ≤ 0` is `ErrInvShardNum` — for every integer, every option -/
theorem C16_new_nonpos_data (d p : Int) (leo : Leo) (fam : Fam) (h : d ≤ 0) :
    new d p leo fam = .err .invShardNum := by
  unfold new
  simp only
  split
  · exact newFF_inv _ _ _ _ (.inl h)
  · split
    · exact newFF_inv _ _ _ _ (.inl h)
    · rw [if_pos (by simp only [Bool.or_eq_true, decide_eq_true_eq]; omega)]

/-- `parityShards < 0` is `ErrInvShardNum` — for every integer, every option -/
theorem C16_new_neg_parity (d p : Int) (leo : Leo) (fam : Fam) (h : p < 0) :
    new d p leo fam = .err .invShardNum := by
  unfold new
  simp only
  split
  · exact newFF_inv _ _ _ _ (.inr (by omega))
  · split
    · exact newFF_inv _ _ _ _ (.inr (by omega))
    · rw [if_pos (by simp only [Bool.or_eq_true, decide_eq_true_eq]; omega)]

/-- the sum of the two counts overflows 64 bits (the wrapped total is negative): always an error,
never a panic and never an encoder — `ErrMaxShardNum` from the Leopard constructors when an option
forces Leopard, otherwise the matrix constructor's error (invalid row size / fix a37e7db) -/
theorem C16_new_overflow (d p : Int) (hd : 0 < d ∧ d < 2 ^ 63) (hp : 0 < p ∧ p < 2 ^ 63)
    (leo : Leo) (fam : Fam) (h : 2 ^ 63 ≤ d + p) :
    new d p leo fam = if leo = .asNeeded then .err .other else .err .maxShardNum := by
  have hw := wrap64_cases (d + p) (by omega) (by omega)
  have hneg : wrap64 (d + p) < 0 := by omega
  have hbig : ∀ order : Nat, (order : Int) ≤ 65536 → ∀ k, newFF order k d p = .err .maxShardNum :=
    fun order ho k => newFF_max_count order k d p hd.1 hp.1 (by omega)
  unfold new
  simp only
  cases leo with
  | gf16 =>
    rw [if_pos (by simp only [Bool.or_eq_true, Bool.and_eq_true, decide_eq_true_eq, eq_self, true_and]; omega)]
    rw [hbig 65536 (by omega)]; simp
  | always =>
    rw [if_neg (by simp only [Bool.or_eq_true, Bool.and_eq_true, decide_eq_true_eq, reduceCtorEq,
        false_and, false_or]; omega),
      if_pos (by simp only [Bool.and_eq_true, decide_eq_true_eq, eq_self, true_and]; omega)]
    rw [hbig 256 (by omega)]; simp
  | asNeeded =>
    rw [if_neg (by simp only [Bool.or_eq_true, Bool.and_eq_true, decide_eq_true_eq, reduceCtorEq,
        false_and, false_or]; omega),
      if_neg (by simp),
      if_neg (by simp only [Bool.or_eq_true, decide_eq_true_eq]; omega),
      if_neg (by omega)]
    have hle : wrap64 (d + p) ≤ 0 := by omega
    cases fam <;> simp [hle]

/-- more than 256 shards in total (no overflow): the GF(2^16) Leopard constructor decides,
whatever the options -/
theorem C16_new_big (d p : Int) (leo : Leo) (fam : Fam)
    (h : 256 < d + p) (h63 : d + p < 2 ^ 63) : new d p leo fam = newFF 65536 .leo16 d p := by
  have hw := wrap64_id (d + p) (by omega) (by omega)
  unfold new
  simp only [hw]
  rw [if_pos]
  simp only [Bool.or_eq_true, decide_eq_true_eq]; omega

/-- more than 256 shards (no overflow) and `d + ceilPow2 p` beyond 65536: `ErrMaxShardNum`
(fix 674193f) -/
theorem C16_new_too_many (d p : Int) (hd : 0 < d) (hp : 0 < p)
    (leo : Leo) (fam : Fam) (h : 256 < d + p) (h63 : d + p < 2 ^ 63)
    (hbig : 65536 < d + (ceilPow2 p.toNat : Int)) : new d p leo fam = .err .maxShardNum := by
  rw [C16_new_big d p leo fam h h63]
  exact newFF_max _ _ _ _ hd hp hbig

/-- more than 256 data shards and no parity: Leopard rejects `parityShards = 0` -/
theorem C16_new_big_no_parity (d : Int) (hd : 256 < d ∧ d < 2 ^ 63) (leo : Leo) (fam : Fam) :
    new d 0 leo fam = .err .invShardNum := by
  have hw := wrap64_id (d + 0) (by omega) (by omega)
  unfold new
  simp only [hw]
  rw [if_pos]
  · exact newFF_inv _ _ _ _ (.inr (Int.le_refl 0))
  · simp only [Bool.or_eq_true, decide_eq_true_eq]; omega

/-- exact characterisation of the matrix codec being returned: `1 ≤ d`, `0 ≤ p`, `d + p ≤ 256`
(and Leopard was not forced by an option) -/
theorem C16_new_enc_rs8 (d p : Int) (hd : -2 ^ 63 ≤ d ∧ d < 2 ^ 63) (hp : -2 ^ 63 ≤ p ∧ p < 2 ^ 63)
    (leo : Leo) (fam : Fam) (h : new d p leo fam = .enc .rs8) :
    1 ≤ d ∧ 0 ≤ p ∧ d + p ≤ 256 ∧ (p = 0 ∨ leo = .asNeeded) := by
  have hw := wrap64_cases (d + p) (by omega) (by omega)
  rcases new_enc_inv d p leo fam _ h with ⟨hk, _⟩ | ⟨hk, _⟩ | ⟨_, a, b, c, e, f⟩
  · cases hk
  · cases hk
  · refine ⟨by omega, b, ?_, f⟩
    by_cases hp0 : p = 0
    · omega
    · have := e (by omega); omega

/-- a Leopard GF(2^8) encoder only with `WithLeopardGF(true)`, a GF(2^16) one only with
`WithLeopardGF16(true)` or more than 256 shards -/
theorem C16_new_enc_leo (d p : Int) (hd : -2 ^ 63 ≤ d ∧ d < 2 ^ 63) (hp : -2 ^ 63 ≤ p ∧ p < 2 ^ 63)
    (leo : Leo) (fam : Fam) :
    (new d p leo fam = .enc .leo8 → leo = .always ∧ 1 ≤ d ∧ 1 ≤ p ∧ d + p ≤ 256) ∧
    (new d p leo fam = .enc .leo16 → (leo = .gf16 ∨ 256 < d + p) ∧ 1 ≤ d ∧ 1 ≤ p ∧ d + p ≤ 65536) := by
  have hw := wrap64_cases (d + p) (by omega) (by omega)
  have hc : 0 ≤ (ceilPow2 p.toNat : Int) := Int.natCast_nonneg _
  constructor
  · intro h
    rcases new_enc_inv d p leo fam _ h with ⟨hk, _⟩ | ⟨_, a, b, hpo, c, e, f⟩ | ⟨hk, _⟩
    · cases hk
    · have hle := le_ceilPow2 p.toNat (by omega)
      exact ⟨e, by omega, by omega, by omega⟩
    · cases hk
  · intro h
    rcases new_enc_inv d p leo fam _ h with ⟨_, a, b, hpo, c, e⟩ | ⟨hk, _⟩ | ⟨hk, _⟩
    · have hle := le_ceilPow2 p.toNat (by omega)
      refine ⟨?_, by omega, by omega, by omega⟩
      cases e with
      | inl e => exact .inl e
      | inr e => right; omega
    · cases hk
    · cases hk

/-- the accepted calls of the default constructor: `1 ≤ d`, `0 ≤ p`, `d + p ≤ 256`, any built-in
matrix family -/
theorem C16_new_rs8_ok (d p : Int) (hd : 1 ≤ d) (hp : 0 ≤ p) (h : d + p ≤ 256) (fam : Fam)
    (hf : ∀ r c, fam ≠ .custom r c) : new d p .asNeeded fam = .enc .rs8 := by
  have hw := wrap64_id (d + p) (by omega) (by omega)
  unfold new
  simp only [hw]
  rw [if_neg (by simp only [Bool.or_eq_true, Bool.and_eq_true, decide_eq_true_eq, reduceCtorEq, false_and, false_or]; omega),
    if_neg (by simp),
    if_neg (by simp only [Bool.or_eq_true, decide_eq_true_eq]; omega)]
  split
  · rfl
  · cases fam <;> first | rfl | exact absurd rfl (hf _ _) | (rw [if_neg (by omega)])

/-- `WithCustomMatrix`: at least `p` rows (extra rows are ignored, fix 40188d9) of at least `d`
columns -/
theorem C16_new_custom (d p : Int) (hd : 1 ≤ d) (hp : 1 ≤ p) (h : d + p ≤ 256) (rows cols : Nat) :
    new d p .asNeeded (.custom rows cols) =
      if (rows : Int) < p ∨ (cols : Int) < d then .err .other else .enc .rs8 := by
  have hw := wrap64_id (d + p) (by omega) (by omega)
  unfold new
  simp only [hw]
  rw [if_neg (by simp only [Bool.or_eq_true, Bool.and_eq_true, decide_eq_true_eq, reduceCtorEq, false_and, false_or]; omega),
    if_neg (by simp),
    if_neg (by simp only [Bool.or_eq_true, decide_eq_true_eq]; omega),
    if_neg (by omega)]
  by_cases h1 : (rows : Int) < p
  · simp [h1]
  · rw [if_neg h1, if_neg (by omega)]
    by_cases h2 : (cols : Int) < d
    · simp [h2]
    · simp [h1, h2]

/-- the documented results of `New`, collected -/
theorem C16_new_documented (d p : Int) (hd : -2 ^ 63 ≤ d ∧ d < 2 ^ 63) (hp : -2 ^ 63 ≤ p ∧ p < 2 ^ 63)
    (leo : Leo) (fam : Fam) :
    (d ≤ 0 → new d p leo fam = .err .invShardNum) ∧
    (p < 0 → new d p leo fam = .err .invShardNum) ∧
    (0 < d → 0 < p → 2 ^ 63 ≤ d + p →
      new d p leo fam = if leo = .asNeeded then .err .other else .err .maxShardNum) ∧
    (0 < d → 0 < p → 256 < d + p → d + p < 2 ^ 63 → 65536 < d + (ceilPow2 p.toNat : Int) →
      new d p leo fam = .err .maxShardNum) ∧
    (0 < d → 0 < p → 256 < d + p → p ≤ 65536 → d + (ceilPow2 p.toNat : Int) ≤ 65536 →
      new d p leo fam = .enc .leo16) ∧
    (256 < d → p = 0 → new d p leo fam = .err .invShardNum) ∧
    (new d p leo fam = .enc .rs8 → 1 ≤ d ∧ 0 ≤ p ∧ d + p ≤ 256 ∧ (p = 0 ∨ leo = .asNeeded)) ∧
    (1 ≤ d → 0 ≤ p → d + p ≤ 256 → leo = .asNeeded → (∀ r c, fam ≠ .custom r c) →
      new d p leo fam = .enc .rs8) := by
  refine ⟨C16_new_nonpos_data d p leo fam, C16_new_neg_parity d p leo fam,
    fun a b c => C16_new_overflow d p ⟨a, hd.2⟩ ⟨b, hp.2⟩ leo fam c,
    fun a b c e f => C16_new_too_many d p a b leo fam c e f,
    ?_, ?_, C16_new_enc_rs8 d p hd hp leo fam, ?_⟩
  · intro a b c hpo e
    have hc : 0 ≤ (ceilPow2 p.toNat : Int) := Int.natCast_nonneg _
    have hle := le_ceilPow2 p.toNat (by omega)
    rw [C16_new_big d p leo fam c (by omega)]
    exact newFF_ok _ _ _ _ a b hpo e
  · intro a b; subst b; exact C16_new_big_no_parity d ⟨a, hd.2⟩ leo fam
  · intro a b c e f; subst e; exact C16_new_rs8_ok d p a b c fam f

/-! ### documented results of `NewStream` -/

/-- more than 256 shards in total: `ErrMaxShardNum` (streams have no Leopard backend) -/
theorem C16_newStream_max (d p : Int) (leo : Leo) (fam : Fam) (h : 256 < wrap64 (d + p)) :
    newStream d p leo fam = .err .maxShardNum := by
  simp [newStream, h]

/-- an option that selects Leopard: `ErrNotSupported` instead of a failing type assertion
(fix d4cd075) -/
theorem C16_newStream_not_supported (d p : Int) (leo : Leo) (fam : Fam) (k : Kind)
    (h : new d p leo fam = .enc k) (hk : k ≠ .rs8) (hs : wrap64 (d + p) ≤ 256) :
    newStream d p leo fam = .err .notSupported := by
  have : ¬ wrap64 (d + p) > 256 := by omega
  cases k with
  | rs8 => exact absurd rfl hk
  | leo8 => simp [newStream, this, h]
  | leo16 => simp [newStream, this, h]

/-- otherwise `NewStream` answers like `New` -/
theorem C16_newStream_eq_new (d p : Int) (leo : Leo) (fam : Fam) (hs : wrap64 (d + p) ≤ 256)
    (h : ∀ k, new d p leo fam = .enc k → k = .rs8) : newStream d p leo fam = new d p leo fam := by
  have : ¬ wrap64 (d + p) > 256 := by omega
  unfold newStream
  rw [if_neg this]
  split
  · rename_i h1; exact h1.symm
  · rename_i k h1 h2; exact absurd (h k h2) h1
  · rfl

/-! ### non-vacuity -/

example : new 4 2 .asNeeded .default = .enc .rs8 := by decide
example : new 200 56 .always .default = .err .maxShardNum := by decide
example : new 100 28 .always .default = .enc .leo8 := by decide
example : new 200 100 .always .default = .enc .leo16 := by decide
example : new 40000 20000 .asNeeded .default = .err .maxShardNum := by decide
example : new 30000 20000 .asNeeded .default = .enc .leo16 := by decide
example : new 300 0 .asNeeded .default = .err .invShardNum := by decide
example : new 0 2 .asNeeded .default = .err .invShardNum := by decide
example : new 4 (-1) .asNeeded .default = .err .invShardNum := by decide
example : new (2 ^ 63 - 1) 1 .asNeeded (.custom 2 3) = .err .other := by decide
example : new (2 ^ 63 - 1) 1 .asNeeded .default = .err .other := by decide
example : new (2 ^ 63 - 1) 1 .always (.custom 2 3) = .err .maxShardNum := by decide
example : new (2 ^ 63 - 1) (2 ^ 63 - 1) .gf16 .cauchy = .err .maxShardNum := by decide
example : new (-2 ^ 63) (-2 ^ 63) .always .default = .err .invShardNum := by decide
example : new 4 2 .asNeeded (.custom 1 4) = .err .other := by decide
example : new 4 2 .asNeeded (.custom 5 4) = .enc .rs8 := by decide
example : newStream 4 2 .always .default = .err .notSupported := by decide
example : newStream 4 2 .asNeeded .default = .enc .rs8 := by decide
example : newStream 200 100 .asNeeded .default = .err .maxShardNum := by decide
example : usable .leo16 30000 20000 = true ∧ usable .leo16 40000 20000 = false := by decide
example : join .rs8 4 2 (List.replicate 4 ⟨false, 10, 10⟩) (-1) = .err .shortData := by decide
example : join .rs8 4 2 (List.replicate 4 ⟨false, 10, 10⟩) 40 = .ok := by decide
example : join .rs8 4 2 (List.replicate 4 ⟨false, 10, 10⟩) 41 = .err .shortData := by decide
example : join .rs8 4 2 (List.replicate 3 ⟨false, 10, 10⟩) 5 = .err .tooFewShards := by decide
example : encode .rs8 4 2 (List.replicate 6 ⟨false, 10, 10⟩) = .ok := by decide
example : encode .leo8 4 2 (List.replicate 6 ⟨false, 10, 10⟩) = .err .invalidShardSize := by decide
example : encode .rs8 4 2 (⟨true, 0, 0⟩ :: List.replicate 5 ⟨false, 10, 10⟩) = .err .shardSize := by
  decide
example : encode .rs8 4 2 (List.replicate 6 ⟨true, 0, 0⟩) = .err .shardNoData := by decide
example : reconstruct .rs8 2 1 [⟨false, 8, 8⟩, ⟨true, 0, 0⟩, ⟨false, 8, 8⟩] (.some (some [true])) =
    .err .tooFewShards := by decide
example : reconstruct .rs8 2 1 [⟨false, 8, 8⟩, ⟨true, 0, 0⟩, ⟨false, 8, 8⟩]
    (.some (some [false, true])) = .ok := by decide
example : reconstruct .rs8 2 1 [⟨false, 8, 8⟩, ⟨true, 0, 0⟩, ⟨false, 8, 8⟩] (.some none) = .ok := by
  decide
example : reconstruct .rs8 2 1 [⟨false, 8, 8⟩, ⟨true, 0, 0⟩, ⟨true, 0, 0⟩] .all =
    .err .tooFewShards := by decide
example : reconstruct .rs8 2 1 [⟨false, 8, 8⟩, ⟨true, 0, 0⟩, ⟨true, 0, 0⟩]
    (.some (some [true, false, false])) = .ok := by decide
example : encodeIdx .rs8 4 2 10 (-1) (List.replicate 2 ⟨false, 10, 10⟩) = .err .invShardNum := by
  decide
example : encodeIdx .rs8 4 2 10 4 (List.replicate 2 ⟨false, 10, 10⟩) = .err .invShardNum := by decide
example : encodeIdx .rs8 4 2 10 3 (List.replicate 2 ⟨false, 10, 10⟩) = .ok := by decide
example : update .rs8 2 1 (List.replicate 3 ⟨false, 8, 8⟩) (List.replicate 2 ⟨false, 4, 4⟩) =
    .err .shardSize := by decide
example : update .rs8 2 1 (List.replicate 3 ⟨false, 8, 8⟩) [⟨true, 0, 0⟩, ⟨false, 8, 8⟩] = .ok := by
  decide

/-! #### the kernels' slice expressions are live conditions

`hd` of the totality theorems cannot be dropped: for the (non-existent) matrix encoder with no data
shards the model does reach `panic` — `codeSomeShards` reads `len(inputs[0])`. -/
example : encode .rs8 0 1 [⟨false, 10, 10⟩] = .panic := by decide
example : verify .rs8 0 1 [⟨false, 10, 10⟩] = .panic := by decide
example : reconstruct .rs8 0 2 [⟨false, 10, 10⟩, ⟨true, 0, 0⟩] .all = .panic := by decide
example : verify .rs8 4 2 (List.replicate 6 ⟨false, 10, 10⟩) = .ok := by decide
example : verify .leo8 4 2 (List.replicate 6 ⟨false, 64, 64⟩) = .ok := by decide
example : verify .leo8 4 2 (List.replicate 6 ⟨false, 10, 10⟩) = .err .invalidShardSize := by decide
example : reconstruct .leo8 2 2 [⟨false, 64, 64⟩, ⟨false, 0, 64⟩, ⟨true, 0, 0⟩, ⟨false, 64, 64⟩] .all = .ok := by
  decide
example : codeOob [10, 0, 10] [10] 10 = true ∧ codeOob [10, 10, 10] [10] 10 = false ∧
    codeOob [10, 0, 10] [] 10 = false := by decide

/-! #### `ReconstructSome` and a requested parity shard (defect D1, fix 7b8525f)

Before the fix the first coding pass regenerated only the REQUESTED missing data shards, and the
second pass then recomputed a requested parity shard from `shards[:d]` — with a hole in it.  The
historical input: 4+3 shards, shards 1 and 5 missing, `required` = a full-length mask asking for
shard 5 only.  (The pre-fix counting loop also indexed `required[i]` without the guard
`i < len(required)`; a mask of `d` entries with a missing parity shard was an index out of range.) -/

/-- `ReconstructSome(shards, required)` of the matrix codec with the control logic BEFORE fix 7b8525f
and the same two coding passes (`rsPass1Oob`, `rsPass2Oob`) -/
def reconstructSomeOld (d p : Nat) (s : List Sh) (l : List Bool) : Outcome :=
  let dataOnly : Bool := l.length ≠ d + p
  if s.length ≠ d + p || l.length < d then .err .tooFewShards
  else match checkShards s true with
    | some e => .err e
    | none =>
      let numberPresent := ((List.range (d + p)).filter (presentAt s)).length
      let dataPresent := ((List.range d).filter (presentAt s)).length
      -- counting loop: `required[i]` at every missing position, unguarded
      let countIdxOk := (List.range (d + p)).all fun i => presentAt s i || (idx? l i).isSome
      let missingRequired := ((List.range (d + p)).filter fun i => !presentAt s i && l.getD i false).length
      if !countIdxOk then .panic
      else if numberPresent = d + p || (dataOnly && dataPresent = d) || missingRequired = 0 then .ok
      else if numberPresent < d then .err .tooFewShards
      else
        -- first pass: `len(shards[i]) == 0 && (required == nil || required[i])` — no `parityRequired`
        let regen (i : Nat) : Bool := !presentAt s i && l.getD i false
        if rsPass1Oob d p s regen || (!dataOnly && rsPass2Oob d p s (some l) regen) then .panic else .ok

private abbrev r10 : Sh := ⟨false, 10, 10⟩
private abbrev rN : Sh := ⟨true, 0, 0⟩

/-- the defect, in Lean: the old control logic reaches an out-of-range slice on the historical
input (data shard 1 is still empty when parity shard 5 is computed from all data shards) -/
example : reconstructSomeOld 4 3 [r10, rN, r10, r10, r10, rN, r10]
    [false, false, false, false, false, true, false] = .panic := by decide
/-- the other half of the defect: a mask of `d` entries, a missing parity shard -/
example : reconstructSomeOld 4 3 [r10, rN, r10, r10, r10, rN, r10] [false, true, false, false] = .panic := by
  decide
/-- after the fix: both calls are answered, shard 1 is regenerated first -/
example : reconstruct .rs8 4 3 [r10, rN, r10, r10, r10, rN, r10]
    (.some (some [false, false, false, false, false, true, false])) = .ok := by decide
example : reconstruct .rs8 4 3 [r10, rN, r10, r10, r10, rN, r10]
    (.some (some [false, true, false, false])) = .ok := by decide
example : rsRegen 4 3 [r10, rN, r10, r10, r10, rN, r10] false
    (some [false, false, false, false, false, true, false]) 1 = true := by decide
-- where the old and the new logic agree: the requested data shard only
example : reconstructSomeOld 4 3 [r10, rN, r10, r10, r10, rN, r10]
    [false, true, false, false, false, false, false] = .ok := by decide

/-! #### `Update` and zero-length shards (fix bd2a6b4)

The correspondence check found that the Go `Update` panicked ("slice bounds out of range [:10] with
capacity 0") on `shards = [10, e, 10, 10 | 10, 10]`, `newDatashards = [n, 10, 10, 10]` (`e` = empty,
not nil; `n` = nil) although the model of that time answered `ok`.  After the fix both the code and
the model answer `ErrInvalidInput` — the driver requests `upd 10,e,10,10,10,10 n,10,10,10` and
`upd 10,10,10,10,e,10 10,n,n,n`. -/

private abbrev sh10 : Sh := ⟨false, 10, 10⟩
private abbrev shE : Sh := ⟨false, 0, 0⟩
private abbrev shN : Sh := ⟨true, 0, 0⟩

example : update .rs8 4 2 [sh10, shE, sh10, sh10, sh10, sh10] [shN, sh10, sh10, sh10] =
    .err .invalidInput := by decide
example : update .rs8 4 2 [sh10, sh10, sh10, sh10, shE, sh10] [sh10, shN, shN, shN] =
    .err .invalidInput := by decide
-- an empty old shard under a nil (unchanged) new shard is accepted: nothing is sliced there
example : update .rs8 4 2 [sh10, shE, sh10, sh10, sh10, sh10] [sh10, shN, sh10, sh10] = .ok := by
  decide

/-- `Update` with the argument checks BEFORE fix bd2a6b4 (`shards[i] == nil`, `p == nil`) and the
same bounds condition `updateOob` for the kernels -/
def updateOld (k : Kind) (d p : Nat) (s nw : List Sh) : Outcome :=
  if leoK k then .err .notSupported
  else if s.length ≠ d + p then .err .tooFewShards
  else if nw.length ≠ d then .err .tooFewShards
  else match checkShards s true with
    | some e => .err e
    | none => match checkShards nw true with
      | some e => .err e
      | none =>
        if shardSize nw ≠ shardSize s then .err .shardSize
        else
          let bad1 := (List.range d).any fun i =>
            match idx? nw i, idx? s i with
            | some a, some b => !a.isNil && b.isNil
            | _, _ => false
          let idxOk := (List.range d).all fun i => (idx? nw i).isSome && (idx? s i).isSome
          if !idxOk then .panic
          else if bad1 then .err .invalidInput
          else if (s.drop d).any (·.isNil) then .err .invalidInput
          else if updateOob d s nw then .panic
          else .ok

/-- the defect, in Lean: the old checks let the two inputs through to an out-of-range slice — the
`panic` branch of the model is live and `C16_update_total` is a statement about the checks -/
example : updateOld .rs8 4 2 [sh10, shE, sh10, sh10, sh10, sh10] [shN, sh10, sh10, sh10] = .panic := by
  decide
example : updateOld .rs8 4 2 [sh10, sh10, sh10, sh10, shE, sh10] [sh10, shN, shN, shN] = .panic := by
  decide
-- on shapes without zero-length non-nil entries the old and the new checks agree
example : updateOld .rs8 4 2 [sh10, shN, sh10, sh10, sh10, sh10] [shN, sh10, sh10, sh10] =
    .err .invalidInput := by decide

/-- the hypothesis `hwf` of `C16_update_total` cannot be dropped: a shape flagged nil with length 10
(no Go slice has it) passes the `!= nil` test of the argument check and is then sliced -/
example : update .rs8 1 1 [shE, sh10] [⟨true, 10, 10⟩] = .panic := by decide


end RSV.Props.C16

#print axioms RSV.Props.C16.shardSize_zero_of_all
#print axioms RSV.Props.C16.shardSize_ne_zero
#print axioms RSV.Props.C16.shardSize_mem
#print axioms RSV.Props.C16.shardSize_of_all
#print axioms RSV.Props.C16.checkShards_of_all
#print axioms RSV.Props.C16.checkShards_len
#print axioms RSV.Props.C16.codeOob_false
#print axioms RSV.Props.C16.rsReconOob_false
#print axioms RSV.Props.C16.leoReconOob_false
#print axioms RSV.Props.C16.encode_eq_checks
#print axioms RSV.Props.C16.verify_eq_checks
#print axioms RSV.Props.C16.reconstruct_eq_checks
#print axioms RSV.Props.C16.encodeIdx_eq_checks
#print axioms RSV.Props.C16.C16_verify_eq_encode
#print axioms RSV.Props.C16.C16_encode_total
#print axioms RSV.Props.C16.C16_verify_total
#print axioms RSV.Props.C16.C16_reconstruct_total
#print axioms RSV.Props.C16.C16_encodeIdx_total
#print axioms RSV.Props.C16.updateOob_false
#print axioms RSV.Props.C16.C16_update_total
#print axioms RSV.Props.C16.C16_update_panic_illformed
#print axioms RSV.Props.C16.C16_split_total
#print axioms RSV.Props.C16.C16_join_total
#print axioms RSV.Props.C16.C16_encode_wrong_count
#print axioms RSV.Props.C16.C16_encode_no_data
#print axioms RSV.Props.C16.C16_encode_unequal
#print axioms RSV.Props.C16.C16_encode_leo_multiple
#print axioms RSV.Props.C16.C16_encode_ok
#print axioms RSV.Props.C16.C16_encode_ok_iff
#print axioms RSV.Props.C16.countPresent_mono
#print axioms RSV.Props.C16.C16_reconstruct_wrong_count
#print axioms RSV.Props.C16.C16_reconstruct_short_mask
#print axioms RSV.Props.C16.C16_reconstruct_check
#print axioms RSV.Props.C16.C16_reconstruct_too_few
#print axioms RSV.Props.C16.C16_reconstruct_ok_rs8
#print axioms RSV.Props.C16.C16_reconstruct_ok_leo
#print axioms RSV.Props.C16.C16_encodeIdx_not_supported
#print axioms RSV.Props.C16.C16_encodeIdx_wrong_count
#print axioms RSV.Props.C16.C16_encodeIdx_bad_index
#print axioms RSV.Props.C16.C16_encodeIdx_errors
#print axioms RSV.Props.C16.C16_encodeIdx_ok
#print axioms RSV.Props.C16.C16_update_not_supported
#print axioms RSV.Props.C16.C16_update_wrong_count
#print axioms RSV.Props.C16.C16_update_size_mismatch
#print axioms RSV.Props.C16.C16_update_empty_old
#print axioms RSV.Props.C16.C16_update_empty_parity
#print axioms RSV.Props.C16.C16_update_ok
#print axioms RSV.Props.C16.C16_update_errors
#print axioms RSV.Props.C16.C16_join_too_few
#print axioms RSV.Props.C16.C16_join_negative
#print axioms RSV.Props.C16.C16_join_errors
#print axioms RSV.Props.C16.C16_split_empty
#print axioms RSV.Props.C16.C16_split_ok
#print axioms RSV.Props.C16.le_ceilPow2
#print axioms RSV.Props.C16.wrap64_cases
#print axioms RSV.Props.C16.wrap64_id
#print axioms RSV.Props.C16.wrap64_range
#print axioms RSV.Props.C16.newFF_ne_panic
#print axioms RSV.Props.C16.C16_new_total_int
#print axioms RSV.Props.C16.C16_new_total
#print axioms RSV.Props.C16.C16_newStream_total_int
#print axioms RSV.Props.C16.C16_newStream_total
#print axioms RSV.Props.C16.C16_newStream_kind
#print axioms RSV.Props.C16.newFF_enc
#print axioms RSV.Props.C16.new_enc_inv
#print axioms RSV.Props.C16.C16_new_usable
#print axioms RSV.Props.C16.newFF_inv
#print axioms RSV.Props.C16.newFF_max
#print axioms RSV.Props.C16.newFF_ok
#print axioms RSV.Props.C16.newFF_max_count
#print axioms RSV.Props.C16.C16_new_nonpos_data
#print axioms RSV.Props.C16.C16_new_neg_parity
#print axioms RSV.Props.C16.C16_new_overflow
#print axioms RSV.Props.C16.C16_new_big
#print axioms RSV.Props.C16.C16_new_too_many
#print axioms RSV.Props.C16.C16_new_big_no_parity
#print axioms RSV.Props.C16.C16_new_enc_rs8
#print axioms RSV.Props.C16.C16_new_enc_leo
#print axioms RSV.Props.C16.C16_new_rs8_ok
#print axioms RSV.Props.C16.C16_new_custom
#print axioms RSV.Props.C16.C16_new_documented
#print axioms RSV.Props.C16.C16_newStream_max
#print axioms RSV.Props.C16.C16_newStream_not_supported
#print axioms RSV.Props.C16.C16_newStream_eq_new
