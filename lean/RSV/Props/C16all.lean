import RSV.Props.C16
import RSV.Props.C16funcs
/-! C16 umbrella: totality theorems over the API model and the theorems that the package's `shardSize` / `checkShards`, as
regenerated from the current `reedsolomon.go`, are the model's -/
