import RSV.Proofs.GenApi
/-!
# C16 (code of the argument checks) — `shardSize` / `checkShards`, as the Go loops are written now, are the model's

`RSV.Gen.ApiGo` is regenerated on every run from `reedsolomon.go` by the shape mode of the Go-subset → Lean
translator: `shardSize(shards [][]byte) int` and `checkShards(shards [][]byte, nilok bool) error` — the two helpers
every public call validates its shards with — are translated statement by statement over the array of the shard
LENGTHS (the translator rejects, with a non-zero exit status, every use of a shard other than `len(..)`), loops as
`forIn`, panics as `none`, `error` as `Option String` holding the name of the Go sentinel variable.

For EVERY list of shard shapes `s` (any number of shards, any lengths, nil or not, any capacities) and both values of
`nilok` the regenerated code returns, without panic, exactly what `RSV.Model.Api.shardSize` /
`RSV.Model.Api.checkShards` — the functions all `C16_*` theorems are about — return.  No bound on the lengths is
needed (`C16f_shardSize_int`: lengths below `2^63`, i.e. Go slices, give a Go `int`).
-/
namespace RSV.Props.C16funcs
open RSV
open RSV.Model.Api (Sh E)

/-- `shardSize(shards)` never panics and is the model's `shardSize` -/
theorem C16f_shardSize (s : List Sh) :
    Gen.shardSize (s.map Sh.len).toArray = some (Int.ofNat (Model.Api.shardSize s)) :=
  GenApi.shardSize_eq s

/-- with Go lengths the result is a Go `int` -/
theorem C16f_shardSize_int (s : List Sh) (h63 : ∀ x ∈ s, x.len < 2 ^ 63) :
    ∃ n : Nat, n < 2 ^ 63 ∧ Gen.shardSize (s.map Sh.len).toArray = some (Int.ofNat n) ∧ n = Model.Api.shardSize s :=
  ⟨Model.Api.shardSize s, GenApi.shardSize_lt s h63, GenApi.shardSize_eq s, rfl⟩

/-- `checkShards(shards, nilok)` never panics and returns the sentinel the model names (`GenApi.errName`), or nil -/
theorem C16f_checkShards (s : List Sh) (nilok : Bool) :
    Gen.checkShards (s.map Sh.len).toArray nilok = some ((Model.Api.checkShards s nilok).map GenApi.errName) :=
  GenApi.checkShards_eq s nilok

/-- the same without `errName`: nil exactly when the model accepts -/
theorem C16f_checkShards_nil (s : List Sh) (nilok : Bool) :
    Gen.checkShards (s.map Sh.len).toArray nilok = some none ↔ Model.Api.checkShards s nilok = none :=
  GenApi.checkShards_nil s nilok

/-- `ErrShardNoData` exactly when the model says `shardNoData` -/
theorem C16f_checkShards_noData (s : List Sh) (nilok : Bool) :
    Gen.checkShards (s.map Sh.len).toArray nilok = some (some "ErrShardNoData") ↔
      Model.Api.checkShards s nilok = some E.shardNoData :=
  GenApi.checkShards_noData s nilok

/-- `ErrShardSize` exactly when the model says `shardSize` -/
theorem C16f_checkShards_size (s : List Sh) (nilok : Bool) :
    Gen.checkShards (s.map Sh.len).toArray nilok = some (some "ErrShardSize") ↔
      Model.Api.checkShards s nilok = some E.shardSize :=
  GenApi.checkShards_size s nilok

/-- and these are the only three results -/
theorem C16f_checkShards_cases (s : List Sh) (nilok : Bool) :
    Gen.checkShards (s.map Sh.len).toArray nilok = some none ∨
    Gen.checkShards (s.map Sh.len).toArray nilok = some (some "ErrShardNoData") ∨
    Gen.checkShards (s.map Sh.len).toArray nilok = some (some "ErrShardSize") :=
  GenApi.checkShards_cases s nilok

/-! the names of the sentinels -/
example : GenApi.errName .shardNoData = "ErrShardNoData" := rfl
example : GenApi.errName .shardSize = "ErrShardSize" := rfl

/-! non-vacuity: the regenerated code runs, and distinguishes the cases -/
example : Gen.shardSize #[0, 5, 7] = some 5 := by decide +kernel
example : Gen.shardSize #[0, 0] = some 0 := by decide +kernel
example : Gen.shardSize #[] = some 0 := by decide +kernel
example : Gen.checkShards #[3, 0, 3] true = some none := by decide +kernel
example : Gen.checkShards #[3, 0, 3] false = some (some "ErrShardSize") := by decide +kernel
example : Gen.checkShards #[3, 4, 3] true = some (some "ErrShardSize") := by decide +kernel
example : Gen.checkShards #[0, 0] true = some (some "ErrShardNoData") := by decide +kernel
example : Gen.checkShards #[] false = some (some "ErrShardNoData") := by decide +kernel
example : Gen.checkShards ([⟨false, 3, 3⟩, ⟨true, 0, 0⟩, ⟨false, 3, 8⟩].map Sh.len).toArray true = some none :=
  (C16f_checkShards_nil _ _).mpr (by decide)

end RSV.Props.C16funcs

#print axioms RSV.Props.C16funcs.C16f_shardSize
#print axioms RSV.Props.C16funcs.C16f_shardSize_int
#print axioms RSV.Props.C16funcs.C16f_checkShards
#print axioms RSV.Props.C16funcs.C16f_checkShards_nil
#print axioms RSV.Props.C16funcs.C16f_checkShards_noData
#print axioms RSV.Props.C16funcs.C16f_checkShards_size
#print axioms RSV.Props.C16funcs.C16f_checkShards_cases
