import RSV.Proofs.Tables.All
import RSV.Proofs.GF256Field
/-!
# C17 — precomputed field tables equal the field they claim to tabulate

The static GF(2^8) tables are *regenerated* from `/repo/galois.go` on every run
(`RSV.Gen.Tables`); the theorems below are re-checked by the kernel against them.
`gmul` is shift-and-reduce multiplication modulo `x^8+x^4+x^3+x^2+1`.
The Leopard run-time tables are covered in `RSV.Props.C17leo`.
-/
namespace RSV.Props.C17
open RSV RSV.Gen RSV.Tables

/-- all 65,536 products -/
theorem C17_mulTable (a b : Nat) (ha : a < 256) (hb : b < 256) : byteAt (mulTableRows[a]!) b = gmul a b :=
  mulTable_ok a b ha hb

/-- exponent table: `expTable[i] = x^i` -/
theorem C17_expTable (i : Nat) (hi : i < 256) : byteAt expTable i = gpow 2 i := expTable_pow i hi

/-- logarithm table inverts the exponent table -/
theorem C17_logTable (i : Nat) (hi : i < 255) : byteAt logTable (gpow 2 i) = i := by
  rw [← expTable_pow i (by omega)]; exact logTable_exp i hi

theorem C17_expLog (a : Nat) (ha : a < 256) (h0 : a ≠ 0) : gpow 2 (byteAt logTable a) = a := by
  have hl : byteAt logTable a < 256 := by
    unfold byteAt; exact Nat.lt_of_le_of_lt Nat.and_le_right (by decide)
  rw [← expTable_pow _ hl]; exact expTable_log a ha h0

/-- inverse table -/
theorem C17_invTable (a : Nat) (ha : a < 256) (h0 : a ≠ 0) : gmul a (byteAt invTable a) = 1 :=
  invTable_ok.2 a ha h0

/-- the inverse table agrees with the field inverse of the model carrier -/
theorem C17_invTable_field (a : GF256) (h0 : a ≠ 0) : GF256.ofNat (byteAt invTable a.val) = a⁻¹ := by
  have hv : a.val ≠ 0 := fun h => h0 (GF256.ext (by simpa using h))
  have h1 := invTable_ok.2 a.val a.isLt hv
  have hlt : byteAt invTable a.val < 256 := by
    unfold byteAt; exact Nat.lt_of_le_of_lt Nat.and_le_right (by decide)
  have : a * GF256.ofNat (byteAt invTable a.val) = 1 := by
    apply GF256.ext
    simp [Nat.mod_eq_of_lt hlt, h1]
  exact (eq_inv_of_mul_eq_one_right this)

/-- low / high nibble tables -/
theorem C17_mulTableLow (a n : Nat) (ha : a < 256) (hn : n < 16) : byteAt (mulTableLowRows[a]!) n = gmul a n :=
  mulTableLow_ok a ha n hn
theorem C17_mulTableHigh (a n : Nat) (ha : a < 256) (hn : n < 16) : byteAt (mulTableHighRows[a]!) n = gmul a (n * 16) :=
  mulTableHigh_ok a ha n hn

/-- the 8×8 GFNI bit-matrices: GF2P8AFFINEQB with matrix `c` multiplies by `c` -/
theorem C17_gfni (c x : Nat) (hc : c < 256) (hx : x < 256) :
    affineByte (wordAt gf2p811dMulMatrices c) x = gmul c x := gfni_ok c x hc hx

/-- the constant in galois.go is the polynomial the specification uses -/
theorem C17_polynomial : generatingPolynomial + 256 = poly8 ∧ fieldSize = 256 :=
  ⟨generatingPolynomial_ok, fieldSize_ok⟩

/-- field identities hold for all operands: `GF256` with these operations is a field -/
theorem C17_field_identities (a b c : GF256) :
    (a * b) * c = a * (b * c) ∧ a * (b + c) = a * b + a * c ∧ a * b = b * a ∧ (a ≠ 0 → a * a⁻¹ = 1) :=
  ⟨mul_assoc a b c, mul_add a b c, mul_comm a b, fun h => mul_inv_cancel₀ h⟩

/-- consequently the table product is associative, distributive, … for all byte operands -/
theorem C17_table_assoc (a b c : Nat) (ha : a < 256) (hb : b < 256) (hc : c < 256) :
    byteAt (mulTableRows[byteAt (mulTableRows[a]!) b]!) c = byteAt (mulTableRows[a]!) (byteAt (mulTableRows[b]!) c) := by
  rw [mulTable_ok a b ha hb, mulTable_ok b c hb hc, mulTable_ok _ c (gmul_lt _ ha) hc,
    mulTable_ok a _ ha (gmul_lt _ hb)]
  exact gmul_assoc ha hb hc

end RSV.Props.C17
