import RSV.Props.C17submatrix
import RSV.Props.C17invert
import RSV.Props.C17buildMatrix
import RSV.Props.C17funcs
import RSV.Props.C17matrix
import RSV.Props.C17
import RSV.Props.C17leo
import RSV.Props.C17gf16
import RSV.Props.C17gf16lut
/-! C17 umbrella: static GF(2^8) tables (`RSV.Props.C17`) and Leopard GF(2^8) run-time tables and constants
(`RSV.Props.C17leo`) -/
namespace RSV.Props.C17all

/-- Leopard's GF(2^8) product, read through the Cantor map, is the product the static tables tabulate -/
theorem C17_leopard_same_field (a b : Nat) (ha : a < 256) (hb : b < 256) :
    RSV.Model.Leo.cantorMap RSV.Model.Leo.P8 (RSV.Model.Leo.leoMul RSV.Proofs.LeoField.C8 a b)
      = RSV.gmul (RSV.Model.Leo.cantorMap RSV.Model.Leo.P8 a) (RSV.Model.Leo.cantorMap RSV.Model.Leo.P8 b) :=
  RSV.Props.C17leo.C17leo_mul a b ha hb

end RSV.Props.C17all
