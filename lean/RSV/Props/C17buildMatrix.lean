import RSV.Proofs.GenBuildMatrixMain
/-!
# C17 (matrix code) — `buildMatrix` and `matrix.Multiply`, as the Go code is written now, equal the model's

`Gen.buildMatrix` (reedsolomon.go) goes through the regenerated `vandermonde`, `SubMatrix`, `Invert` and `Multiply`
(matrix.go).  For every shape `0 < d ≤ total` (`d < 2^55`, `total < 2^63`: the ranges in which Go's `int`
arithmetic does not wrap) it returns exactly the model's generator matrix `Model.buildMatrix xByte d total`
(Vandermonde times the inverse of its top square) listed as bytes — or `(nil, errSingular)` exactly when the model
returns `none`.  `matrix.Multiply` is the model's matrix product `mulMat` for all non-empty shapes.
-/
namespace RSV.Props.C17buildMatrix
open RSV RSV.Gen RSV.Model

/-- `matrix.Multiply` = `mulMat` -/
theorem C17m_Multiply {n k c : Nat} (A : Mat GF256 n k) (B : Mat GF256 k c) (hn : 0 < n) (hk : 0 < k) (hc : 0 < c) :
    Gen.matrix_Multiply (rowsOfMat A) (rowsOfMat B) = some (rowsOfMat (mulMat A B), none) :=
  GenInvert.multiply_model A B hn hk hc

/-- `buildMatrix(d, total)` = `Model.buildMatrix`, both outcomes -/
theorem C17m_buildMatrix (d total : Nat) (hd : 0 < d) (h : d ≤ total) (hd55 : d < 2 ^ 55) (ht63 : total < 2 ^ 63) :
    Gen.buildMatrix (d : Int) (total : Int) =
      match Model.buildMatrix xByte d total h with
      | some M => some (rowsOfMat M, none)
      | none => some (#[], some "errSingular") :=
  GenInvert.buildMatrix_eq d total hd h hd55 ht63

/-- the executable comparison `genBuildMatrixAgrees` can only answer `true` -/
theorem C17m_genBuildMatrixAgrees (d total : Nat) (hd : 0 < d) (h : d ≤ total) (hd55 : d < 2 ^ 55)
    (ht63 : total < 2 ^ 63) : genBuildMatrixAgrees d total = true :=
  GenInvert.genBuildMatrixAgrees_true d total hd h hd55 ht63

/-! non-vacuity -/
example : genBuildMatrixAgrees 4 7 = true := C17m_genBuildMatrixAgrees 4 7 (by decide) (by decide) (by decide) (by decide)
example : ∃ M, Model.buildMatrix xByte 3 5 (by decide) = some M ∧ Gen.buildMatrix 3 5 = some (rowsOfMat M, none) := by
  have h := C17m_buildMatrix 3 5 (by decide) (by decide) (by decide) (by decide)
  have hs : (Model.buildMatrix xByte 3 5 (by decide)).isSome = true := by decide +kernel
  cases hi : Model.buildMatrix xByte 3 5 (by decide) with
  | none => rw [hi] at hs; exact absurd hs (by decide)
  | some M => rw [hi] at h; exact ⟨M, rfl, h⟩

end RSV.Props.C17buildMatrix

#print axioms RSV.Props.C17buildMatrix.C17m_Multiply
#print axioms RSV.Props.C17buildMatrix.C17m_buildMatrix
#print axioms RSV.Props.C17buildMatrix.C17m_genBuildMatrixAgrees
