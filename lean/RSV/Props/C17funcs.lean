import RSV.Proofs.GenFuncs
/-!
# C17 (functions) — the scalar Go functions, as they are written now, equal the model / specification

`RSV.Gen.Funcs` is *regenerated* on every run from the current Go sources by the Go-subset → Lean
translator of `tools/extract` (Go's wrap-around arithmetic, conversions, table reads, panics and loops
made explicit).  Each theorem below states, for all inputs in the range of the Go parameter types,
that the regenerated definition equals the hand-written function the other theorems are about:
`gmul` / `gpow` / the field operations of `GF256` (galois.go), and `addMod` / `subMod` / `mulLog` /
`ceilPow2` / `isNeeded` of the executable Leopard model (leopard.go, leopard8.go).
`some v` = the Go function returns `v`; `none` = it panics.  A change of one of these Go functions
changes the regenerated definition and breaks the corresponding proof obligation.
-/
namespace RSV.Props.C17funcs
open RSV RSV.Gen RSV.Model RSV.Model.BitfieldImpl

/-! ## galois.go -/

/-- `galAdd` is xor — the addition of `GF256` -/
theorem C17f_galAdd (x y : GF256) : Gen.galAdd x.val y.val = (x + y).val := rfl

/-- `galMultiply` is the shift-and-reduce product, for all byte operands -/
theorem C17f_galMultiply (a b : Nat) (ha : a < 256) (hb : b < 256) : Gen.galMultiply a b = gmul a b :=
  Tables.mulTable_ok a b ha hb

/-- `galDivide a b` returns the field quotient when both operands are non-zero … -/
theorem C17f_galDivide (a b : Nat) (ha : a < 256) (hb : b < 256) (ha0 : a ≠ 0) (hb0 : b ≠ 0) :
    Gen.galDivide a b = some (GF256.ofNat a / GF256.ofNat b).val :=
  GenFuncs.galDivide_field ha hb ha0 hb0

/-- … returns `0` for a zero dividend whatever the divisor (also `0 / 0`) … -/
theorem C17f_galDivide_zero (b : Nat) : Gen.galDivide 0 b = some 0 := GenFuncs.galDivide_zero_left b

/-- … and panics for a non-zero dividend and a zero divisor -/
theorem C17f_galDivide_panic (a : Nat) (ha0 : a ≠ 0) : Gen.galDivide a 0 = none :=
  GenFuncs.galDivide_zero_right ha0

/-- `galOneOver` returns the field inverse of a non-zero byte and panics on `0` -/
theorem C17f_galOneOver (a : Nat) (ha : a < 256) (ha0 : a ≠ 0) :
    Gen.galOneOver a = some ((GF256.ofNat a)⁻¹).val := GenFuncs.galOneOver_field ha ha0

theorem C17f_galOneOver_panic : Gen.galOneOver 0 = none := GenFuncs.galOneOver_zero

/-- `galExp a n = a^n` (repeated `gmul`) for every byte `a` and every exponent `0 ≤ n < 2^55`
(beyond that `int(logA) * n` can overflow `int`; the callers pass `n < 65536`); the reduction loop
terminates -/
theorem C17f_galExp (a n : Nat) (ha : a < 256) (hn : n < 2 ^ 55) : Gen.galExp a (n : Int) = some (gpow a n) :=
  GenFuncs.galExp_eq a n ha hn

/-! ## leopard.go (GF(2^16)) -/

theorem C17f_addMod (a b : Nat) (ha : a < 65536) (hb : b < 65536) : Gen.addMod a b = Leo.addMod Leo.P16 a b :=
  GenFuncs.addMod_eq ha hb

theorem C17f_subMod (a b : Nat) (ha : a < 65536) (hb : b < 65536) : Gen.subMod a b = Leo.subMod Leo.P16 a b :=
  GenFuncs.subMod_eq ha hb

/-- `mulLog`, with the run-time tables `expLUT`, `logLUT` as parameters (entries of `logLUT` are `ffe`) -/
theorem C17f_mulLog (expLUT logLUT : Array Nat) (a b : Nat) (hl : logLUT[a]! < 65536) (hb : b < 65536) :
    Gen.mulLog expLUT logLUT a b = Leo.mulLog Leo.P16 ⟨logLUT, expLUT⟩ a b := GenFuncs.mulLog_eq expLUT logLUT hl hb

theorem C17f_fwht2alt (a b : Nat) (ha : a < 65536) (hb : b < 65536) :
    Gen.fwht2alt a b = (Leo.addMod Leo.P16 a b, Leo.subMod Leo.P16 a b) := GenFuncs.fwht2alt_eq ha hb

/-- `ceilPow2` (via `bits.LeadingZeros`) equals the doubling loop of the model for `1 ≤ n ≤ 2^62`
(Go returns `0` for `n = 0` and a negative number above `2^62`; the callers pass `1 ≤ n ≤ 65536`) -/
theorem C17f_ceilPow2 (n : Nat) (h1 : 1 ≤ n) (h2 : n ≤ 2 ^ 62) :
    Gen.ceilPow2 (n : Int) = some ((Leo.ceilPow2 n : Nat) : Int) := GenFuncs.ceilPow2_eq n h1 h2

/-- `(*errorBitfield).isNeeded` for every level `≥ 1` and every `bit < 65536`; the receiver's fields are
parameters -/
theorem C17f_isNeeded16 (words bigWords : Array (Array Nat)) (biggestWords : Array Nat) (m bit : Nat)
    (hm : 1 ≤ m) (hb : bit < 65536) :
    Gen.errorBitfield_isNeeded words bigWords biggestWords (m : Int) bit =
      some (BF16.isNeeded ⟨words, bigWords, biggestWords⟩ m bit) :=
  GenFuncs.isNeeded16_eq words bigWords biggestWords m bit hm hb

/-- level `0` (never queried) panics in Go (`Words[-1]`) -/
theorem C17f_isNeeded16_level0 (words bigWords : Array (Array Nat)) (biggestWords : Array Nat) (bit : Nat) :
    Gen.errorBitfield_isNeeded words bigWords biggestWords 0 bit = none :=
  GenFuncs.isNeeded16_level0 words bigWords biggestWords bit

/-! ## leopard8.go (GF(2^8)) -/

theorem C17f_addMod8 (a b : Nat) (ha : a < 256) (hb : b < 256) : Gen.addMod8 a b = Leo.addMod Leo.P8 a b :=
  GenFuncs.addMod8_eq ha hb

theorem C17f_subMod8 (a b : Nat) (ha : a < 256) (hb : b < 256) : Gen.subMod8 a b = Leo.subMod Leo.P8 a b :=
  GenFuncs.subMod8_eq ha hb

theorem C17f_mulLog8 (expLUT logLUT : Array Nat) (a b : Nat) (hl : logLUT[a]! < 256) (hb : b < 256) :
    Gen.mulLog8 expLUT logLUT a b = Leo.mulLog Leo.P8 ⟨logLUT, expLUT⟩ a b := GenFuncs.mulLog8_eq expLUT logLUT hl hb

theorem C17f_fwht2alt8 (a b : Nat) (ha : a < 256) (hb : b < 256) :
    Gen.fwht2alt8 a b = (Leo.addMod Leo.P8 a b, Leo.subMod Leo.P8 a b) := GenFuncs.fwht2alt8_eq ha hb

/-- `(*errorBitfield8).isNeeded` for every level and every `bit < 256` -/
theorem C17f_isNeeded8 (words : Array (Array Nat)) (m bit : Nat) (hb : bit < 256) :
    Gen.errorBitfield8_isNeeded words (m : Int) (bit : Int) = some (BF8.isNeeded ⟨words⟩ m bit) :=
  GenFuncs.isNeeded8_eq words m bit hb

/-- a `bit ≥ 256` at a level that reads the words panics in Go (index out of range) -/
theorem C17f_isNeeded8_panic (words : Array (Array Nat)) (m bit : Nat) (hm1 : 1 ≤ m) (hm7 : m ≤ 7)
    (hb : 256 ≤ bit) (hb63 : bit < 2 ^ 63) :
    Gen.errorBitfield8_isNeeded words (m : Int) (bit : Int) = none :=
  GenFuncs.isNeeded8_oob words m bit hm1 hm7 hb hb63

/-! ## non-vacuity: the hypotheses are satisfiable and the statements are about concrete values -/

example : Gen.galMultiply 7 9 = gmul 7 9 := C17f_galMultiply 7 9 (by decide) (by decide)
example : Gen.galMultiply 7 9 = 63 := by decide +kernel
example : Gen.galDivide 63 9 = some (GF256.ofNat 63 / GF256.ofNat 9).val :=
  C17f_galDivide 63 9 (by decide) (by decide) (by decide) (by decide)
example : Gen.galDivide 63 9 = some 7 := by decide +kernel
example : Gen.galDivide 5 0 = none := C17f_galDivide_panic 5 (by decide)
example : Gen.galOneOver 2 = some ((GF256.ofNat 2)⁻¹).val := C17f_galOneOver 2 (by decide) (by decide)
example : Gen.galOneOver 2 = some 142 := by decide +kernel
example : Gen.galExp 3 1000 = some (gpow 3 1000) := C17f_galExp 3 1000 (by decide) (by decide)
example : Gen.addMod 65535 65535 = Leo.addMod Leo.P16 65535 65535 := C17f_addMod _ _ (by decide) (by decide)
example : Gen.addMod 65535 65535 = 65535 ∧ Gen.subMod 3 5 = 65533 ∧ Gen.subMod8 0 1 = 254 := by decide +kernel
example : Gen.ceilPow2 5 = some ((Leo.ceilPow2 5 : Nat) : Int) := C17f_ceilPow2 5 (by decide) (by decide)
example : Gen.ceilPow2 5 = some 8 := by decide +kernel
example : Gen.errorBitfield8_isNeeded #[#[0, 0, 4, 0], #[], #[], #[], #[], #[], #[]] 1 130 = some true := by decide +kernel
example : Gen.errorBitfield8_isNeeded #[#[0, 0, 4, 0], #[], #[], #[], #[], #[], #[]] 1 130
    = some (BF8.isNeeded ⟨#[#[0, 0, 4, 0], #[], #[], #[], #[], #[], #[]]⟩ 1 130) := C17f_isNeeded8 _ 1 130 (by decide)

end RSV.Props.C17funcs

#print axioms RSV.Props.C17funcs.C17f_galAdd
#print axioms RSV.Props.C17funcs.C17f_galMultiply
#print axioms RSV.Props.C17funcs.C17f_galDivide
#print axioms RSV.Props.C17funcs.C17f_galDivide_zero
#print axioms RSV.Props.C17funcs.C17f_galDivide_panic
#print axioms RSV.Props.C17funcs.C17f_galOneOver
#print axioms RSV.Props.C17funcs.C17f_galOneOver_panic
#print axioms RSV.Props.C17funcs.C17f_galExp
#print axioms RSV.Props.C17funcs.C17f_addMod
#print axioms RSV.Props.C17funcs.C17f_subMod
#print axioms RSV.Props.C17funcs.C17f_mulLog
#print axioms RSV.Props.C17funcs.C17f_fwht2alt
#print axioms RSV.Props.C17funcs.C17f_ceilPow2
#print axioms RSV.Props.C17funcs.C17f_isNeeded16
#print axioms RSV.Props.C17funcs.C17f_isNeeded16_level0
#print axioms RSV.Props.C17funcs.C17f_addMod8
#print axioms RSV.Props.C17funcs.C17f_subMod8
#print axioms RSV.Props.C17funcs.C17f_mulLog8
#print axioms RSV.Props.C17funcs.C17f_fwht2alt8
#print axioms RSV.Props.C17funcs.C17f_isNeeded8
#print axioms RSV.Props.C17funcs.C17f_isNeeded8_panic
