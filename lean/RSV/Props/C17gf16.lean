import RSV.Proofs.Leo16.Iso
import RSV.Gen.Facts
/-!
# C17 (Leopard GF(2^16) part) — Leopard's 16-bit run-time tables equal the field they tabulate

`T = Leo.initLUTs Leo.P16` are the model's 65,536-entry `log` / `exp` tables of `leopard.go`,
`C = Leo.mkCtx Leo.P16` the context of the driver.  Nothing here evaluates a table: the theorems are
proved from loop invariants of `initLUTs` (`RSV/Proofs/Leo16/Loops.lean`, `Tables.lean`), the fact that
`x` has multiplicative order 65535 modulo 0x1002D (`Order.lean`: five square-and-multiply evaluations
and `65535 = 3·5·17·257`), and the invertibility of the Cantor basis (`Cantor.lean`: 2 × 16 kernel
evaluations).

First-principles vocabulary (`RSV/Spec/BinField.lean`): `pmul 16 0x1002D` is the carry-less product
modulo `x^16 + x^5 + x^3 + x^2 + 1`, `ppow 16 0x1002D 2 k` is `x^k`; `Leo.cantorMap Leo.P16 a` is the xor
of the Cantor basis constants `P16.cantor[b]` over the set bits `b` of `a`.

`exp[log[a]] = a` holds for `a ≠ 0` only: `log[0] = 65535` and `exp[65535] = exp[0] = 1`.
-/
namespace RSV.Props.C17gf16
open RSV RSV.BF RSV.Model RSV.Proofs.Leo16 RSV.Proofs.LeoSched

/-- the Cantor map of GF(2^16) -/
abbrev cm (a : Nat) : Nat := Leo.cantorMap Leo.P16 a
/-- `x^k` in GF(2)[x]/(0x1002D) -/
abbrev xp (k : Nat) : Nat := ppow 16 0x1002D 2 k
/-- the model's GF(2^16) tables -/
abbrev T : Leo.LUTs := Leo.initLUTs Leo.P16
/-- the model's GF(2^16) context -/
abbrev C : Leo.Ctx := Leo.mkCtx Leo.P16

/-- 1. the model's parameters are the Go constants (regenerated literals of `RSV/Gen`) -/
theorem C17gf16_params :
    Leo.P16.bits = 16 ∧ Leo.P16.order = 65536 ∧ Leo.P16.modulus = 65535 ∧ Leo.P16.poly = 0x1002D ∧
    Gen.cantorBasis16 = Leo.P16.cantor.toList ∧ Gen.polynomial16 = Leo.P16.poly ∧
    Leo.P16.bits = Gen.bitwidth16 ∧ Leo.P16.order = Gen.order16 ∧ Leo.P16.modulus = Gen.modulus16 := by
  decide

/-- the tables have `order` entries -/
theorem C17gf16_sizes : T.log.size = 65536 ∧ T.exp.size = 65536 := ⟨log16_size, exp16_size⟩

/-- 2. the 16 Cantor literals are a basis: the Cantor map is an xor-linear bijection of `[0,65536)` -/
theorem C17gf16_cantor_basis :
    (∀ i j, i < 65536 → j < 65536 → cm i = cm j → i = j) ∧
    (∀ i, cm i < 65536) ∧
    (∀ i j, cm (i ^^^ j) = cm i ^^^ cm j) ∧
    cm 0 = 0 ∧ cm 1 = 1 ∧
    (∀ i, i < 16 → cm (2 ^ i) = Leo.P16.cantor[i]!) ∧
    (∀ y, y < 65536 → ∃ i, i < 65536 ∧ cm i = y) :=
  ⟨fun _ _ hi hj h => cm16_inj hi hj h, cm16_lt, cm16_xor, cm16_zero, cm16_one, cm16_two_pow,
   fun _ hy => cm16_surj hy⟩

/-- 3. `x` is a primitive element modulo 0x1002D: `x^65535 = 1`, the powers `x^0 … x^65534` are
pairwise distinct and exhaust the non-zero 16-bit values -/
theorem C17gf16_x_primitive :
    xp 65535 = 1 ∧
    (∀ i j, i < 65535 → j < 65535 → xp i = xp j → i = j) ∧
    (∀ k, xp k < 65536 ∧ xp k ≠ 0) ∧
    (∀ v, v ≠ 0 → v < 65536 → ∃ k, k < 65535 ∧ xp k = v) ∧
    (∀ i j, xp (i + j) = pmul 16 0x1002D (xp i) (xp j)) := by
  refine ⟨?_, ?_, ?_, ?_, ?_⟩
  · rw [xp, ← xpow_eq_ppow]; exact xpow_65535
  · intro i j hi hj h
    rw [xp, xp, ← xpow_eq_ppow, ← xpow_eq_ppow] at h
    exact xpow_inj hi hj h
  · intro k; rw [xp, ← xpow_eq_ppow]; exact ⟨xpow_lt k, xpow_ne_zero k⟩
  · intro v h0 hv
    obtain ⟨k, hk, h⟩ := xpow_surj h0 hv
    exact ⟨k, hk, by rw [xp, ← xpow_eq_ppow]; exact h⟩
  · intro i j
    rw [xp, xp, xp, ← xpow_eq_ppow, ← xpow_eq_ppow, ← xpow_eq_ppow]; exact xpow_add i j

/-- 4. `log` is the discrete logarithm to base `x` (= 2) of the Cantor image -/
theorem C17gf16_log :
    (∀ a, 0 < a → a < 65536 → xp (T.log[a]!) = cm a) ∧
    (∀ a, a ≠ 0 → a < 65536 → T.log[a]! < 65535) ∧
    T.log[0]! = 65535 :=
  ⟨fun a h0 ha => by rw [xp, ← xpow_eq_ppow]; exact log16_spec (Nat.ne_of_gt h0) ha,
   fun _ h0 ha => log16_lt h0 ha, log16_zero⟩

/-- 5. `exp` is the inverse table (`exp[log[a]] = a` for `a ≠ 0`; false at `a = 0`, see below) -/
theorem C17gf16_exp :
    (∀ a, a ≠ 0 → a < 65536 → T.exp[T.log[a]!]! = a) ∧
    T.exp[65535]! = T.exp[0]! ∧
    (∀ k, k < 65535 → T.log[T.exp[k]!]! = k) ∧
    (∀ k, k ≤ 65535 → cm (T.exp[k]!) = xp k) ∧
    (∀ k, k ≤ 65535 → T.exp[k]! < 65536 ∧ T.exp[k]! ≠ 0) :=
  ⟨fun _ h0 ha => exp16_log h0 ha, exp16_65535, fun _ hk => log16_exp hk,
   fun k hk => by rw [xp, ← xpow_eq_ppow]; exact cm16_exp hk,
   fun _ hk => ⟨exp16_lt hk, exp16_ne_zero hk⟩⟩

/-- the one exception: `exp[log[0]] = exp[65535] = exp[0] = 1 ≠ 0` -/
theorem C17gf16_exp_log_zero : T.exp[T.log[0]!]! = 1 := exp16_log_zero

/-- `addMod` adds exponents: `x^(addMod a b) = x^a · x^b` for `a, b ≤ 65535` (`x^65535 = 1`) -/
theorem C17gf16_addMod (a b : Nat) (ha : a ≤ 65535) (hb : b ≤ 65535) :
    Leo.addMod Leo.P16 a b = (if a + b < 65536 then a + b else a + b - 65535) ∧
    Leo.addMod Leo.P16 a b ≤ 65535 ∧
    xp (Leo.addMod Leo.P16 a b) = pmul 16 0x1002D (xp a) (xp b) := by
  refine ⟨addMod16_eq ha hb, Nat.le_of_lt_succ (addMod16_lt a b), ?_⟩
  rw [xp, xp, xp, ← xpow_eq_ppow, ← xpow_eq_ppow, ← xpow_eq_ppow, xpow_addMod16 ha hb]
  exact xpow_add a b

/-- 6. Leopard's product IS GF(2^16)/0x1002D multiplication under the Cantor map -/
theorem C17gf16_mul (a b : Nat) (ha : a < 65536) (hb : b < 65536) :
    cm (Leo.leoMul C a b) = pmul 16 0x1002D (cm a) (cm b) := cm16_leoMul ha hb

/-- 7. `mulLog a log_m` (the kernels' `· exp(log_m)`) is multiplication by `x^log_m`; this includes
`a = 0` and `log_m = 65535`, where `x^65535 = 1` -/
theorem C17gf16_mulLog (a m : Nat) (ha : a < 65536) (hm : m < 65536) :
    cm (Leo.mulLog Leo.P16 T a m) = pmul 16 0x1002D (cm a) (xp m) ∧
    cm (Leo.mulSym C a m) = pmul 16 0x1002D (cm a) (xp m) := by
  rw [xp, ← xpow_eq_ppow]; exact ⟨cm16_mulLog ha hm, cm16_mulSym ha hm⟩

theorem C17gf16_mulLog_65535 (a : Nat) (ha : a < 65536) : Leo.mulSym C a 65535 = a :=
  mulSym16_65535 ha

/-- `mulSym · m` is xor-linear and stays below 65536 -/
theorem C17gf16_mulLog_linear (a b m : Nat) (ha : a < 65536) (hb : b < 65536) (hm : m < 65536) :
    Leo.mulSym C (a ^^^ b) m = Leo.mulSym C a m ^^^ Leo.mulSym C b m ∧ Leo.mulSym C a m < 65536 :=
  ⟨mulLog16_xor ha hb hm, mulLog16_lt _ _⟩

/-- 8. the bounded algebraic hypothesis of the schedule theorems (`RSV/Proofs/LeoSchedBounded.lean`)
holds for the model's real GF(2^16) tables -/
theorem C04_mulLinearOn_gf16 : MulLinearOn (Leo.mkCtx Leo.P16) 65536 := mulLinearOn_gf16

/-- 9. field identities of Leopard's product for all 16-bit operands -/
theorem C17gf16_field (a b c : Nat) (ha : a < 65536) (hb : b < 65536) (hc : c < 65536) :
    Leo.leoMul C a b < 65536 ∧
    Leo.leoMul C a b = Leo.leoMul C b a ∧
    Leo.leoMul C (Leo.leoMul C a b) c = Leo.leoMul C a (Leo.leoMul C b c) ∧
    Leo.leoMul C a (b ^^^ c) = Leo.leoMul C a b ^^^ Leo.leoMul C a c ∧
    Leo.leoMul C (a ^^^ b) c = Leo.leoMul C a c ^^^ Leo.leoMul C b c ∧
    Leo.leoMul C a 1 = a ∧ Leo.leoMul C 1 a = a ∧
    (Leo.leoMul C a b = 0 ↔ a = 0 ∨ b = 0) ∧
    (a ≠ 0 → Leo.leoMul C a (T.exp[65535 - T.log[a]!]!) = 1) :=
  ⟨leoMul16_lt a b, leoMul16_comm ha hb, leoMul16_assoc ha hb hc, leoMul16_xor_right ha hb hc,
   leoMul16_xor_left ha hb hc, leoMul16_one ha, one_leoMul16 ha, leoMul16_eq_zero ha hb,
   fun h0 => leoMul16_inv ha h0⟩

/-- 10. `GF65536` (naturals below 65536, `+ = xor`, `* = pmul 16 0x1002D`) is a field: the operations of
the Mathlib `Field` instance are the first-principles ones -/
theorem C17gf16_GF65536_ops (a b : GF65536) :
    (a + b).val = a.val ^^^ b.val ∧ (a - b).val = a.val ^^^ b.val ∧ -a = a ∧
    (a * b).val = pmul 16 0x1002D a.val b.val ∧ (0 : GF65536).val = 0 ∧ (1 : GF65536).val = 1 ∧
    a⁻¹ = a ^ 65534 ∧ (a ≠ 0 → a * a⁻¹ = 1) ∧ a + a = 0 :=
  ⟨rfl, rfl, rfl, rfl, rfl, rfl, GF65536.inv_eq_pow a, fun h => mul_inv_cancel₀ h,
   GF65536.add_self a⟩

/-- the Cantor map into `GF65536` is a ring isomorphism from Leopard's symbols (with xor and the
log/exp product) onto the field -/
theorem C17gf16_toGF (a b : Nat) (ha : a < 65536) (hb : b < 65536) :
    toGF16 (a ^^^ b) = toGF16 a + toGF16 b ∧ toGF16 (Leo.leoMul C a b) = toGF16 a * toGF16 b ∧
    toGF16 0 = 0 ∧ toGF16 1 = 1 ∧ (toGF16 a = toGF16 b → a = b) ∧ (toGF16 a).val = cm a ∧
    (∀ y : GF65536, ∃ i, i < 65536 ∧ toGF16 i = y) :=
  ⟨toGF16_xor a b, toGF16_leoMul ha hb, toGF16_zero, toGF16_one, fun h => toGF16_inj ha hb h, rfl,
   toGF16_surj⟩

/-- the kernels' multiplication by `exp(log_m)` is multiplication by `x^log_m` in `GF65536` -/
theorem C17gf16_toGF_mulSym (a m : Nat) (ha : a < 65536) (hm : m < 65536) :
    toGF16 (Leo.mulSym C a m) = toGF16 a * GF65536.X ^ m ∧ GF65536.X.val = 2 :=
  ⟨toGF16_mulSym ha hm, rfl⟩

end RSV.Props.C17gf16

#print axioms RSV.Props.C17gf16.C17gf16_params
#print axioms RSV.Props.C17gf16.C17gf16_sizes
#print axioms RSV.Props.C17gf16.C17gf16_cantor_basis
#print axioms RSV.Props.C17gf16.C17gf16_x_primitive
#print axioms RSV.Props.C17gf16.C17gf16_log
#print axioms RSV.Props.C17gf16.C17gf16_exp
#print axioms RSV.Props.C17gf16.C17gf16_exp_log_zero
#print axioms RSV.Props.C17gf16.C17gf16_addMod
#print axioms RSV.Props.C17gf16.C17gf16_mul
#print axioms RSV.Props.C17gf16.C17gf16_mulLog
#print axioms RSV.Props.C17gf16.C17gf16_mulLog_65535
#print axioms RSV.Props.C17gf16.C17gf16_mulLog_linear
#print axioms RSV.Props.C17gf16.C04_mulLinearOn_gf16
#print axioms RSV.Props.C17gf16.C17gf16_field
#print axioms RSV.Props.C17gf16.C17gf16_GF65536_ops
#print axioms RSV.Props.C17gf16.C17gf16_toGF
#print axioms RSV.Props.C17gf16.C17gf16_toGF_mulSym
#print axioms RSV.GF65536.instField
#print axioms RSV.GF65536.instCharP
