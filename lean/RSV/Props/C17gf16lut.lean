import RSV.Props.C17gf16
import RSV.Props.C17leo
import RSV.Proofs.Leo16.Lut
/-!
# C17 (Leopard GF(2^16), product lookup tables) — the per-multiplier tables equal the direct product

For every multiplier `log_m` Leopard builds product tables from the 4 × 16 nibble products
`tmp = nibbleProducts` (`tmp[nib·16 + x] = mulLog (x << 4·nib) log_m`):

* `mul16LUTs[log_m].Lo / .Hi` (`Leo.mul16LUT`): `Lo[i] = tmp[i&15] ^ tmp[(i>>4)+16]`,
  `Hi[i] = tmp[(i&15)+32] ^ tmp[(i>>4)+48]`, used by `mulgf16` and the reference butterflies as
  `Lo[a & 255] ^ Hi[a >> 8]`;
* `multiply256LUT[log_m]` (`Leo.mul256LUT16`): 128 bytes, the low bytes of the 4 × 16 nibble products then their high
  bytes, used by the SIMD kernels, which xor the four entries selected by the nibbles of the operand.

With `T = initLUTs P16`, for EVERY multiplier `m < 65536` (including `m = 65535`, the multiplier 1) and EVERY operand
`a < 65536` — structurally, no table is evaluated (that would be 65,536 × 65,536 cases):

* `C17gf16_nibbleProducts` — every entry of `tmp`;
* `C17gf16_mul16LUT` — `Lo[a &&& 255] ^^^ Hi[a >>> 8] = mulLog a m`; `C17gf16_mul16LUT_lo_hi` — `Lo[i] = mulLog i m`,
  `Hi[j] = mulLog (j <<< 8) m`; `C17gf16_mul16LUT_def` — the model's tables are built as in the Go source;
* `C17gf16_mul256LUT` — entry `i < 64` is the low byte and entry `64 + i` the high byte of
  `mulLog ((i % 16) <<< (4 * (i / 16))) m`;
* `C17gf16_nibble_compose` — the xor over the four nibbles of `a` of the nibble products is `mulLog a m` (products and
  table entries); `C17gf16_mul256LUT_compose` — byte-wise for the SIMD table;
* `C17gf16_mul16LUT_field` — hence the table product is multiplication by `x^m` in GF(2)[x]/(0x1002D) under the Cantor map.

GF(2^8) mirror (`C17leo_mul8LUT`, `C17leo_mul256LUT8` exist): `C17leo_mul256LUT8_compose`, the missing composition
statement for the two 16-entry tables of `multiply256LUT8`.
-/
namespace RSV.Props.C17gf16lut
open RSV RSV.BF RSV.Model RSV.Proofs.Leo16 RSV.Props.C17gf16

/-- the table sizes: 256 + 256 entries, 128 bytes -/
theorem C17gf16_lut_sizes (P : Leo.Params) (T' : Leo.LUTs) (m : Nat) :
    (Leo.mul16LUT P T' m).1.size = 256 ∧ (Leo.mul16LUT P T' m).2.size = 256 ∧
    (Leo.mul256LUT16 P T' m).size = 128 := by
  simp [Leo.mul16LUT, Leo.mul256LUT16]

/-- the 4 × 16 nibble products: entry `nib·16 + x` is the product of `x` shifted to nibble position `nib` -/
theorem C17gf16_nibbleProducts (m nib x : Nat) (hn : nib < 4) (hx : x < 16) :
    (Leo.nibbleProducts Leo.P16 T m)[nib * 16 + x]! = Leo.mulLog Leo.P16 T (x <<< (4 * nib)) m ∧
    x <<< (4 * nib) < 65536 := by
  have hlt := nibble_shift_lt nib hn x hx
  refine ⟨?_, hlt⟩
  have h := nib_get Leo.P16 T16 m nib x hn hx
  rw [P16_order, Nat.mod_eq_of_lt hlt] at h
  exact h

/-- the model's `Lo` / `Hi` are composed from the nibble products exactly as in `initMul16LUT` (any parameters) -/
theorem C17gf16_mul16LUT_def (P : Leo.Params) (T' : Leo.LUTs) (m i : Nat) (hi : i < 256) :
    (Leo.mul16LUT P T' m).1[i]! =
      (Leo.nibbleProducts P T' m)[i &&& 15]! ^^^ (Leo.nibbleProducts P T' m)[(i >>> 4) + 16]! ∧
    (Leo.mul16LUT P T' m).2[i]! =
      (Leo.nibbleProducts P T' m)[(i &&& 15) + 32]! ^^^ (Leo.nibbleProducts P T' m)[(i >>> 4) + 48]! :=
  ⟨mul16LUT_fst P T' m i hi, mul16LUT_snd P T' m i hi⟩

/-- **`mul16LUTs[log_m]`: `Lo[a & 255] ^ Hi[a >> 8]` is the direct product**, every multiplier and operand -/
theorem C17gf16_mul16LUT (m a : Nat) (hm : m < 65536) (ha : a < 65536) :
    (Leo.mul16LUT Leo.P16 T m).1[a &&& 255]! ^^^ (Leo.mul16LUT Leo.P16 T m).2[a >>> 8]! =
      Leo.mulLog Leo.P16 T a m := mul16LUT_get hm ha

/-- the two halves separately: `Lo` tabulates the products of the low byte values, `Hi` of the high byte values -/
theorem C17gf16_mul16LUT_lo_hi (m i : Nat) (hm : m < 65536) (hi : i < 256) :
    (Leo.mul16LUT Leo.P16 T m).1[i]! = Leo.mulLog Leo.P16 T i m ∧
    (Leo.mul16LUT Leo.P16 T m).2[i]! = Leo.mulLog Leo.P16 T (i <<< 8) m :=
  ⟨mul16LUT_lo hm hi, mul16LUT_hi hm hi⟩

/-- the table product is Leopard's symbol product `mulSym`, i.e. multiplication by `x^m` in GF(2)[x]/(0x1002D) under
the Cantor map -/
theorem C17gf16_mul16LUT_field (m a : Nat) (hm : m < 65536) (ha : a < 65536) :
    (Leo.mul16LUT Leo.P16 T m).1[a &&& 255]! ^^^ (Leo.mul16LUT Leo.P16 T m).2[a >>> 8]! = Leo.mulSym C a m ∧
    cm ((Leo.mul16LUT Leo.P16 T m).1[a &&& 255]! ^^^ (Leo.mul16LUT Leo.P16 T m).2[a >>> 8]!) =
      pmul 16 0x1002D (cm a) (xp m) := by
  rw [C17gf16_mul16LUT m a hm ha]
  exact ⟨rfl, (C17gf16_mulLog a m ha hm).1⟩

/-- **`multiply256LUT[log_m]`**: 4 × 16 low bytes, then 4 × 16 high bytes, of the nibble products -/
theorem C17gf16_mul256LUT (m i : Nat) (hi : i < 64) :
    (Leo.mul256LUT16 Leo.P16 T m)[i]! =
      Leo.mulLog Leo.P16 T ((i % 16) <<< (4 * (i / 16))) m &&& 0xFF ∧
    (Leo.mul256LUT16 Leo.P16 T m)[64 + i]! =
      Leo.mulLog Leo.P16 T ((i % 16) <<< (4 * (i / 16))) m >>> 8 :=
  ⟨mul256LUT16_lo hi, mul256LUT16_hi hi⟩

/-- **composition**: the xor over the four nibbles of `a` of the nibble products is the direct product — as products
of the shifted nibbles, and as the four entries of `nibbleProducts` they select -/
theorem C17gf16_nibble_compose (m a : Nat) (hm : m < 65536) (ha : a < 65536) :
    Leo.mulLog Leo.P16 T (a &&& 15) m ^^^
      Leo.mulLog Leo.P16 T (((a >>> 4) &&& 15) <<< 4) m ^^^
      Leo.mulLog Leo.P16 T (((a >>> 8) &&& 15) <<< 8) m ^^^
      Leo.mulLog Leo.P16 T ((a >>> 12) <<< 12) m = Leo.mulLog Leo.P16 T a m ∧
    (Leo.nibbleProducts Leo.P16 T m)[a &&& 15]! ^^^
      (Leo.nibbleProducts Leo.P16 T m)[((a >>> 4) &&& 15) + 16]! ^^^
      (Leo.nibbleProducts Leo.P16 T m)[((a >>> 8) &&& 15) + 32]! ^^^
      (Leo.nibbleProducts Leo.P16 T m)[(a >>> 12) + 48]! = Leo.mulLog Leo.P16 T a m :=
  ⟨nibble_compose16_mul hm ha, nibble_compose16 hm ha⟩

/-- the operand is the xor of its four shifted nibbles (the bit fact behind the composition) -/
theorem C17gf16_nibbles (a : Nat) (ha : a < 65536) :
    (a &&& 15) ^^^ (((a >>> 4) &&& 15) <<< 4) ^^^ (((a >>> 8) &&& 15) <<< 8) ^^^ ((a >>> 12) <<< 12) = a := by
  obtain ⟨e1, e2, e3, -⟩ := nibbles_of ha
  have hl := byte_split _ (and255_lt a)
  have hh := byte_split _ (shr8_lt ha)
  have h := split_low a 8
  rw [show (2 ^ 8 - 1 : Nat) = 255 from rfl, ← hl.2.2.2.2.1, ← hh.2.2.2.2.2.2.2.1, e1, e2, e3] at h
  rw [← Nat.xor_assoc] at h
  exact h

/-- the SIMD composition: xoring the four low-byte (high-byte) entries of `multiply256LUT[log_m]` selected by the
nibbles of `a` gives the low (high) byte of the direct product -/
theorem C17gf16_mul256LUT_compose (m a : Nat) (hm : m < 65536) (ha : a < 65536) :
    (Leo.mul256LUT16 Leo.P16 T m)[a &&& 15]! ^^^
      (Leo.mul256LUT16 Leo.P16 T m)[((a >>> 4) &&& 15) + 16]! ^^^
      (Leo.mul256LUT16 Leo.P16 T m)[((a >>> 8) &&& 15) + 32]! ^^^
      (Leo.mul256LUT16 Leo.P16 T m)[(a >>> 12) + 48]! = Leo.mulLog Leo.P16 T a m &&& 0xFF ∧
    (Leo.mul256LUT16 Leo.P16 T m)[64 + (a &&& 15)]! ^^^
      (Leo.mul256LUT16 Leo.P16 T m)[64 + (((a >>> 4) &&& 15) + 16)]! ^^^
      (Leo.mul256LUT16 Leo.P16 T m)[64 + (((a >>> 8) &&& 15) + 32)]! ^^^
      (Leo.mul256LUT16 Leo.P16 T m)[64 + ((a >>> 12) + 48)]! = Leo.mulLog Leo.P16 T a m >>> 8 :=
  mul256LUT16_compose hm ha

/-- a value is the xor of its low byte and the remaining bits shifted back: the two bytes of the SIMD result determine the
product -/
theorem C17gf16_bytes (v : Nat) : (v &&& 0xFF) ^^^ ((v >>> 8) <<< 8) = v := split_low v 8

/-! ## GF(2^8) mirror: the missing composition statement -/

open RSV.Proofs.LeoField in
/-- `multiply256LUT8[log_m]`: the xor of the two entries selected by the nibbles of `a` is the direct product -/
theorem C17leo_mul256LUT8_compose (m a : Nat) (hm : m < 256) (ha : a < 256) :
    (Leo.mul256LUT8 Leo.P8 T8 m)[a &&& 15]! ^^^ (Leo.mul256LUT8 Leo.P8 T8 m)[(a >>> 4) + 16]! =
      Leo.mulSym C8 a m := by
  obtain ⟨h1, h2, h3, h4⟩ := nibble_split a ha
  rw [(mul256LUT8_get (m := m) h1).1, (mul256LUT8_get (m := m) h2).2, ← mulSym_xor (by omega) h3 hm, h4]

end RSV.Props.C17gf16lut

#print axioms RSV.Props.C17gf16lut.C17gf16_lut_sizes
#print axioms RSV.Props.C17gf16lut.C17gf16_nibbleProducts
#print axioms RSV.Props.C17gf16lut.C17gf16_mul16LUT_def
#print axioms RSV.Props.C17gf16lut.C17gf16_mul16LUT
#print axioms RSV.Props.C17gf16lut.C17gf16_mul16LUT_lo_hi
#print axioms RSV.Props.C17gf16lut.C17gf16_mul16LUT_field
#print axioms RSV.Props.C17gf16lut.C17gf16_mul256LUT
#print axioms RSV.Props.C17gf16lut.C17gf16_nibble_compose
#print axioms RSV.Props.C17gf16lut.C17gf16_nibbles
#print axioms RSV.Props.C17gf16lut.C17gf16_mul256LUT_compose
#print axioms RSV.Props.C17gf16lut.C17gf16_bytes
#print axioms RSV.Props.C17gf16lut.C17leo_mul256LUT8_compose
