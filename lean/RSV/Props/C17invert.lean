import RSV.Proofs.GenInvertCor
/-!
# C17 (matrix code) — `matrix.Invert`, as the Go code is written now, equals the model's Gaussian elimination

`RSV.Gen.matrix_Invert` is the statement-by-statement translation of `matrix.go: (matrix) Invert` (through
`IsSquare`, `identityMatrix`, `Augment`, `gaussianElimination` with `SwapRows`, `SubMatrix`, `newMatrix`, and the
regenerated `galMultiply` / `galOneOver`), regenerated from the current Go source on every run.
`RSV.Model.invert` is the hand-written elimination the inversion theorems (`invert_sound`, `invert_complete`, …)
are about.  For EVERY non-empty square byte matrix (`n < 2^62` rows: beyond that `size * 2` wraps around in Go's
`int`) the Go code returns exactly the model's inverse, listed as bytes, with a `nil` error — or
`(nil, errSingular)` exactly when the model returns `none`.  It never panics and returns no other error.
The Go code's operational shortcuts (pivot search that tests the diagonal entry first and `break`s at the first
non-zero entry below, scaling skipped when the pivot is `1`, row updates skipped when the factor is `0`) are proved
to compute the same matrices as the model's unconditional steps.
-/
namespace RSV.Props.C17invert
open RSV RSV.Gen RSV.Model

/-- `matrix.Invert` = `Model.invert`, both outcomes, all sizes -/
theorem C17m_Invert (n : Nat) (hn : 0 < n) (hn62 : n < 2 ^ 62) (a : Array (Array Nat)) (hsz : a.size = n)
    (hrow : ∀ i, i < n → (a[i]!).size = n) (hb : ∀ i j, i < n → j < n → (a[i]!)[j]! < 256) :
    Gen.matrix_Invert a =
      match Model.invert (matOfRows a n) with
      | some B => some (rowsOfMat B, none)
      | none => some (#[], some "errSingular") :=
  GenInvert.matrix_Invert_eq_model n hn hn62 a hsz hrow hb

/-- when the Go code returns `(inv, nil)`, `inv` lists the entries of a two-sided inverse of the input
(Mathlib's matrix product over the field `GF256`) — `invert_sound` transported to the Go code -/
theorem C17m_Invert_inverse (n : Nat) (hn : 0 < n) (hn62 : n < 2 ^ 62) (a : Array (Array Nat)) (hsz : a.size = n)
    (hrow : ∀ i, i < n → (a[i]!).size = n) (hb : ∀ i j, i < n → j < n → (a[i]!)[j]! < 256)
    (inv : Array (Array Nat)) (h : Gen.matrix_Invert a = some (inv, none)) :
    ∃ B : Mat GF256 n n, Model.invert (matOfRows a n) = some B ∧ inv = rowsOfMat B ∧
      B.toMatrix * (matOfRows a n).toMatrix = 1 ∧ (matOfRows a n).toMatrix * B.toMatrix = 1 :=
  GenInvert.matrix_Invert_ok hn hn62 a hsz hrow hb inv h

/-- the Go code returns `errSingular` exactly on the non-invertible matrices -/
theorem C17m_Invert_singular_iff (n : Nat) (hn : 0 < n) (hn62 : n < 2 ^ 62) (a : Array (Array Nat))
    (hsz : a.size = n) (hrow : ∀ i, i < n → (a[i]!).size = n) (hb : ∀ i j, i < n → j < n → (a[i]!)[j]! < 256) :
    Gen.matrix_Invert a = some (#[], some "errSingular") ↔ ¬ IsUnit (matOfRows a n).toMatrix :=
  GenInvert.matrix_Invert_singular_iff hn hn62 a hsz hrow hb

/-- the executable comparison `genInvertAgrees` (the one the driver runs) can only answer `true` on a non-empty
square byte matrix -/
theorem C17m_genInvertAgrees (rows : List (List Nat)) (h : squareBytes rows = true) (hlen : rows.length < 2 ^ 62) :
    genInvertAgrees rows = true :=
  GenInvert.genInvertAgrees_true rows h hlen

/-! non-vacuity: the theorem instantiated on a 3×3 matrix that needs a row swap, and on a singular one -/
abbrev m3 : Array (Array Nat) := #[#[0, 2, 3], #[0, 0, 7], #[5, 1, 1]]
abbrev s3 : Array (Array Nat) := #[#[1, 2, 3], #[2, 4, 6], #[5, 1, 1]]

example : ∃ B, Model.invert (matOfRows m3 3) = some B ∧ Gen.matrix_Invert m3 = some (rowsOfMat B, none) := by
  have h := C17m_Invert 3 (by decide) (by decide) m3 (by decide) (by decide)
    (fun i j hi hj => (by decide : ∀ i, i < 3 → ∀ j, j < 3 → (m3[i]!)[j]! < 256) i hi j hj)
  cases hi : Model.invert (matOfRows m3 3) with
  | none => exact absurd hi (by decide +kernel)
  | some B => rw [hi] at h; exact ⟨B, rfl, h⟩
example : Gen.matrix_Invert m3 = some (#[#[221, 64, 167], #[142, 231, 0], #[0, 186, 0]], none) := by
  decide +kernel

example : Gen.matrix_Invert s3 = some (#[], some "errSingular") := by
  have h := C17m_Invert 3 (by decide) (by decide) s3 (by decide) (by decide)
    (fun i j hi hj => (by decide : ∀ i, i < 3 → ∀ j, j < 3 → (s3[i]!)[j]! < 256) i hi j hj)
  rw [show Model.invert (matOfRows s3 3) = none by decide +kernel] at h
  exact h

end RSV.Props.C17invert

#print axioms RSV.Props.C17invert.C17m_Invert
#print axioms RSV.Props.C17invert.C17m_Invert_inverse
#print axioms RSV.Props.C17invert.C17m_Invert_singular_iff
#print axioms RSV.Props.C17invert.C17m_genInvertAgrees
