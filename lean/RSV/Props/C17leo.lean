import RSV.Proofs.LeoField
import RSV.Gen.Facts
/-!
# C17 (Leopard part) — Leopard's GF(2^8) run-time tables equal the field they tabulate

Leopard (`leopard8.go`) represents a field element by an index `i` whose bits select elements of the
Cantor basis; `cm i` is that element in the polynomial basis, an element of GF(2^8) modulo 0x11D
(`gmul`, `gpow` of `RSV.Spec.GF256`).  `T8 = initLUTs P8` are the model's `log` / `exp` tables
(evaluated by the kernel, `RSV.Proofs.LeoField.LogTable/ExpTable`), `C8 = mkCtx P8` the context.

`exp[log[i]] = i` holds for `i ≠ 0` only: `log[0] = 255` and `exp[255] = exp[0] = 1`
(`C17leo_exp_log_zero`).
-/
namespace RSV.Props.C17leo
open RSV RSV.Model RSV.Proofs.LeoField

/-- 1. the literals regenerated from the Go source are the published constants of the model -/
theorem C17leo_constants :
    Gen.cantorBasis8 = Leo.P8.cantor.toList ∧ Gen.polynomial8 = Leo.P8.poly ∧ Gen.bitwidth8 = 8 ∧
    Gen.order8 = 256 ∧ Gen.modulus8 = 255 ∧ Gen.cantorBasis16 = Leo.P16.cantor.toList ∧
    Gen.polynomial16 = Leo.P16.poly := by decide

/-- the model's derived parameters are the Go constants, and the polynomial is the one of the
specification -/
theorem C17leo_params :
    Leo.P8.bits = Gen.bitwidth8 ∧ Leo.P8.order = Gen.order8 ∧ Leo.P8.modulus = Gen.modulus8 ∧
    Leo.P8.poly = poly8 ∧ Leo.P16.bits = Gen.bitwidth16 ∧ Leo.P16.order = Gen.order16 ∧
    Leo.P16.modulus = Gen.modulus16 := by decide

/-- 2. the 8 Cantor literals are a basis: the Cantor map is an xor-linear bijection of `[0,256)` -/
theorem C17leo_cantor_basis :
    (∀ i j, i < 256 → j < 256 → cm i = cm j → i = j) ∧
    (∀ i, cm i < 256) ∧
    (∀ i j, cm (i ^^^ j) = cm i ^^^ cm j) ∧
    cm 0 = 0 ∧ cm 1 = 1 ∧
    (∀ y, y < 256 → ∃ i, i < 256 ∧ cm i = y) :=
  ⟨fun _ _ hi hj h => cm_inj hi hj h, cm_lt, cm_xor, cm_zero, cm_one, cm_surj⟩

/-- 3. `log` is the discrete logarithm to base `x` (= 2) of the Cantor image -/
theorem C17leo_log :
    (∀ i, 0 < i → i < 256 → gpow 2 (T8.log[i]!) = cm i) ∧
    (∀ i, i ≠ 0 → i < 256 → T8.log[i]! < 255) ∧
    T8.log[0]! = 255 :=
  ⟨fun _ h0 hi => log_spec h0 hi, fun _ h0 hi => log_lt h0 hi, log_zero⟩

/-- 4. `exp` is the inverse table (`exp[log[i]] = i` for `i ≠ 0`; false at `i = 0`, see below) -/
theorem C17leo_exp :
    (∀ i, i ≠ 0 → i < 256 → T8.exp[T8.log[i]!]! = i) ∧
    T8.exp[255]! = T8.exp[0]! ∧
    (∀ k, k < 255 → T8.log[T8.exp[k]!]! = k) ∧
    (∀ k, k ≤ 255 → cm (T8.exp[k]!) = gpow 2 k) ∧
    (∀ k : Nat, T8.exp[k]! < 256) :=
  ⟨fun _ h0 hi => exp_log h0 hi, exp_255, fun _ hk => log_exp hk, fun _ hk => cm_exp hk, exp_lt⟩

/-- the one exception: `exp[log[0]] = exp[255] = exp[0] = 1 ≠ 0` -/
theorem C17leo_exp_log_zero : T8.exp[T8.log[0]!]! = 1 := exp_log_zero

/-- `addMod` adds exponents: `x^(addMod a b) = x^a · x^b` for `a, b ≤ 255` (`x^255 = 1`) -/
theorem C17leo_addMod (a b : Nat) (ha : a ≤ 255) (hb : b ≤ 255) :
    Leo.addMod Leo.P8 a b = (if a + b < 256 then a + b else a + b - 255) ∧
    Leo.addMod Leo.P8 a b ≤ 255 ∧
    gpow 2 (Leo.addMod Leo.P8 a b) = gmul (gpow 2 a) (gpow 2 b) :=
  ⟨addMod_eq ha hb, addMod_le ha hb, gpow_addMod ha hb⟩

/-- 5. Leopard's product IS GF(2^8)/0x11D multiplication under the Cantor map -/
theorem C17leo_mul (a b : Nat) (ha : a < 256) (hb : b < 256) :
    cm (Leo.leoMul C8 a b) = gmul (cm a) (cm b) := cm_leoMul ha hb

/-- 6. `mulLog a log_m` (the kernel's `· exp(log_m)`) is multiplication by `x^log_m`; this includes
`log_m = 255`, where `x^255 = 1` (`mulLog a 255 = a`) -/
theorem C17leo_mulLog (a m : Nat) (ha : a < 256) (hm : m < 256) :
    cm (Leo.mulSym C8 a m) = gmul (cm a) (gpow 2 m) := cm_mulSym ha hm

theorem C17leo_mulLog_255 (a : Nat) (ha : a < 256) : Leo.mulSym C8 a 255 = a := by
  rw [mulSym_eq]
  apply cm_inj (mulLog_lt _ _) ha
  rw [cm_mulLog ha (by decide), gpow_two_255, gmul_one_right (cm_lt _)]

/-- `mulSym · m` is xor-linear and stays below 256 -/
theorem C17leo_mulLog_linear (a b m : Nat) (ha : a < 256) (hb : b < 256) (hm : m < 256) :
    Leo.mulSym C8 (a ^^^ b) m = Leo.mulSym C8 a m ^^^ Leo.mulSym C8 b m ∧ Leo.mulSym C8 a m < 256 :=
  ⟨mulSym_xor ha hb hm, mulLog_lt _ _⟩

/-- 7. the nibble-composed 256-entry product table equals the direct product -/
theorem C17leo_mul8LUT (m a : Nat) (hm : m < 256) (ha : a < 256) :
    (Leo.mul8LUT Leo.P8 T8 m)[a]! = Leo.mulSym C8 a m := mul8LUT_get hm ha

/-- the two 16-entry nibble tables of `multiply256LUT8` -/
theorem C17leo_mul256LUT8 (m x : Nat) (hx : x < 16) :
    (Leo.mul256LUT8 Leo.P8 T8 m)[x]! = Leo.mulSym C8 x m ∧
    (Leo.mul256LUT8 Leo.P8 T8 m)[x + 16]! = Leo.mulSym C8 (x <<< 4) m := mul256LUT8_get hx

/-- 8. field identities of Leopard's product for all operands -/
theorem C17leo_field (a b c : Nat) (ha : a < 256) (hb : b < 256) (hc : c < 256) :
    Leo.leoMul C8 a b < 256 ∧
    Leo.leoMul C8 a b = Leo.leoMul C8 b a ∧
    Leo.leoMul C8 (Leo.leoMul C8 a b) c = Leo.leoMul C8 a (Leo.leoMul C8 b c) ∧
    Leo.leoMul C8 a (b ^^^ c) = Leo.leoMul C8 a b ^^^ Leo.leoMul C8 a c ∧
    Leo.leoMul C8 (a ^^^ b) c = Leo.leoMul C8 a c ^^^ Leo.leoMul C8 b c ∧
    Leo.leoMul C8 a 1 = a ∧ Leo.leoMul C8 1 a = a ∧
    (Leo.leoMul C8 a b = 0 ↔ a = 0 ∨ b = 0) ∧
    (a ≠ 0 → Leo.leoMul C8 a (T8.exp[255 - T8.log[a]!]!) = 1) :=
  ⟨leoMul_lt a b, leoMul_comm ha hb, leoMul_assoc ha hb hc, leoMul_xor_right ha hb hc,
   leoMul_xor_left ha hb hc, leoMul_one ha, one_leoMul ha, leoMul_eq_zero ha hb,
   fun h0 => leoMul_inv ha h0⟩

/-- the Cantor map into the model carrier `GF256` is an injective ring homomorphism -/
theorem C17leo_toGF (a b : Nat) (ha : a < 256) (hb : b < 256) :
    toGF (a ^^^ b) = toGF a + toGF b ∧ toGF (Leo.leoMul C8 a b) = toGF a * toGF b ∧
    toGF 0 = 0 ∧ toGF 1 = 1 ∧ (toGF a = toGF b → a = b) :=
  ⟨toGF_xor a b, toGF_leoMul ha hb, toGF_zero, by unfold toGF; rw [cm_one]; rfl,
   fun h => toGF_inj ha hb h⟩

end RSV.Props.C17leo

#print axioms RSV.Props.C17leo.C17leo_constants
#print axioms RSV.Props.C17leo.C17leo_params
#print axioms RSV.Props.C17leo.C17leo_cantor_basis
#print axioms RSV.Props.C17leo.C17leo_log
#print axioms RSV.Props.C17leo.C17leo_exp
#print axioms RSV.Props.C17leo.C17leo_exp_log_zero
#print axioms RSV.Props.C17leo.C17leo_addMod
#print axioms RSV.Props.C17leo.C17leo_mul
#print axioms RSV.Props.C17leo.C17leo_mulLog
#print axioms RSV.Props.C17leo.C17leo_mulLog_255
#print axioms RSV.Props.C17leo.C17leo_mulLog_linear
#print axioms RSV.Props.C17leo.C17leo_mul8LUT
#print axioms RSV.Props.C17leo.C17leo_mul256LUT8
#print axioms RSV.Props.C17leo.C17leo_field
#print axioms RSV.Props.C17leo.C17leo_toGF
