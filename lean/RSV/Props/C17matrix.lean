import RSV.Proofs.GenMatrix
/-!
# C17 (matrix code) — the generator-matrix builders, as the Go loops are written now, build the model's matrices

`RSV.Gen.MatrixGo` is regenerated on every run from `matrix.go` / `reedsolomon.go` by the imperative mode of
the Go-subset → Lean translator (slices as arrays, loops as `forIn`, panics as `none`, `error` as
`Option String`).  For ALL shapes the regenerated loops return exactly the matrices of
`RSV.Model.Builders` (`rowsOfMat` lists the entries of a model matrix as bytes), i.e. the matrices the
MDS / encoding theorems are about.  `xByte i` is `byte(i)` as a field element.
(`buildMatrix` — Vandermonde times the inverse of its top square — and `matrix.Invert`: see `RSV.Props.C17buildMatrix`,
`RSV.Props.C17invert`; the executable `RSV.Model.genBuildMatrixAgrees` / `genInvertAgrees` run them next to the model.)
-/
namespace RSV.Props.C17matrix
open RSV RSV.Gen RSV.Model

/-- `newMatrix(n, w)` is the `n × w` zero matrix -/
theorem C17m_newMatrix (n w : Nat) (hn : 0 < n) (hw : 0 < w) :
    Gen.newMatrix (n : Int) (w : Int) = some (Array.replicate n (Array.replicate w 0), none) := by
  rw [GenMatrix.newMatrix_eq n w hn hw, GenMatrix.replicate_eq_mk, GenMatrix.replicate_eq_mkRow]

/-- `vandermonde(rows, cols)[r][c] = byte(r)^c`, every shape (`rows < 2^63`, `cols < 2^55`) -/
theorem C17m_vandermonde (rows cols : Nat) (hr : 0 < rows) (hc : 0 < cols) (hr63 : rows < 2 ^ 63)
    (hc55 : cols < 2 ^ 55) :
    Gen.vandermonde (rows : Int) (cols : Int) = some (rowsOfMat (Model.vandermonde xByte rows cols), none) :=
  GenMatrix.vandermonde_eq rows cols hr hc hr63 hc55

/-- `buildMatrixCauchy(d, total)` is the model's Cauchy generator, every shape -/
theorem C17m_buildMatrixCauchy (d total : Nat) (hd : 0 < d) (ht : 0 < total) (hd63 : d < 2 ^ 63)
    (ht63 : total < 2 ^ 63) :
    Gen.buildMatrixCauchy (d : Int) (total : Int) = some (rowsOfMat (Model.buildMatrixCauchy xByte d total), none) :=
  GenMatrix.buildMatrixCauchy_eq d total hd ht hd63 ht63

/-- `buildMatrixPAR1(d, total)` is the model's PAR1 generator, every shape below `2^55` -/
theorem C17m_buildMatrixPAR1 (d total : Nat) (hd : 0 < d) (ht : 0 < total) (hd55 : d < 2 ^ 55)
    (ht55 : total < 2 ^ 55) :
    Gen.buildMatrixPAR1 (d : Int) (total : Int) = some (rowsOfMat (Model.buildMatrixPAR1 xByte d total), none) :=
  GenMatrix.buildMatrixPAR1_eq d total hd ht hd55 ht55

/-- `buildXorMatrix(d, d+1)` is the model's single-parity generator -/
theorem C17m_buildXorMatrix (d : Nat) (hd : 0 < d) (hd63 : d < 2 ^ 63 - 1) :
    Gen.buildXorMatrix (d : Int) ((d + 1 : Nat) : Int) =
      some (rowsOfMat (Model.buildXorMatrix (F := GF256) d (d + 1)), none) :=
  GenMatrix.buildXorMatrix_eq d hd hd63

/-! non-vacuity -/
example : Gen.buildMatrixCauchy 3 5 = some (rowsOfMat (Model.buildMatrixCauchy xByte 3 5), none) :=
  C17m_buildMatrixCauchy 3 5 (by decide) (by decide) (by decide) (by decide)
example : Gen.buildMatrixCauchy 3 5 =
    some (#[#[1, 0, 0], #[0, 1, 0], #[0, 0, 1], #[244, 142, 1], #[71, 167, 122]], none) := by decide +kernel
example : Gen.vandermonde 4 3 = some (rowsOfMat (Model.vandermonde xByte 4 3), none) :=
  C17m_vandermonde 4 3 (by decide) (by decide) (by decide) (by decide)

end RSV.Props.C17matrix

#print axioms RSV.Props.C17matrix.C17m_newMatrix
#print axioms RSV.Props.C17matrix.C17m_vandermonde
#print axioms RSV.Props.C17matrix.C17m_buildMatrixCauchy
#print axioms RSV.Props.C17matrix.C17m_buildMatrixPAR1
#print axioms RSV.Props.C17matrix.C17m_buildXorMatrix
