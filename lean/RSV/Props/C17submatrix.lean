import RSV.Proofs.GenSubMatrix
/-!
# C17 (matrix code) — `matrix.SubMatrix`, as the Go loop is written now, copies exactly the requested window

`RSV.Gen.matrix_SubMatrix` is the statement-by-statement translation of `matrix.go: (matrix) SubMatrix`, regenerated
from the current Go source on every run.  `C17m_Invert` / `C17m_buildMatrix` use it on the two windows those
functions take (`0,n,n,2n` and `0,0,d,d`, its only in-package call sites); this theorem pins the method's whole
contract.  For EVERY window `[r0,r1) × [c0,c1)` with `r0 < r1 ≤ n`, `c0 < c1 ≤ w` of an `n × w` matrix
(`n, w < 2^62`, below Go's `int` wrap-around) the Go code returns the `(r1-r0) × (c1-c0)` matrix whose `(i,j)` entry
is the input's `(r0+i, c0+j)` entry, with a `nil` error; it never panics there.
-/
namespace RSV.Props.C17submatrix
open RSV RSV.Gen RSV.Model RSV.GenGauss

/-- `SubMatrix(r0, c0, r1, c1)` = the window of the input, all sizes, all windows -/
theorem C17m_SubMatrix (n w : Nat) (E : Nat → Nat → Nat) (r0 c0 r1 c1 : Nat)
    (hr : r0 < r1) (hc : c0 < c1) (hrn : r1 ≤ n) (hcw : c1 ≤ w) (hbn : n < 2 ^ 62) (hbw : w < 2 ^ 62) :
    Gen.matrix_SubMatrix (arr n w E) (r0 : Int) (c0 : Int) (r1 : Int) (c1 : Int) =
      some (arr (r1 - r0) (c1 - c0) (fun i j => E (r0 + i) (c0 + j)), none) :=
  GenInvert.submatrix_arr_window n w E r0 c0 r1 c1 hr hc hrn hcw (by omega) (by omega)

/-! non-vacuity: a 2×2 window out of a 3×4 matrix, by the theorem and by evaluation -/
example : Gen.matrix_SubMatrix (arr 3 4 (fun i j => 10 * i + j)) 1 2 3 4 =
    some (arr 2 2 (fun i j => 10 * (1 + i) + (2 + j)), none) :=
  C17m_SubMatrix 3 4 _ 1 2 3 4 (by decide) (by decide) (by decide) (by decide) (by decide) (by decide)
example : Gen.matrix_SubMatrix #[#[0, 1, 2, 3], #[10, 11, 12, 13], #[20, 21, 22, 23]] 1 2 3 4 =
    some (#[#[12, 13], #[22, 23]], none) := by decide +kernel

/-- `SwapRows(a, b)` with both rows in range exchanges exactly rows `a` and `b` (every other row, and every entry
within a row, stays), with a `nil` error -/
theorem C17m_SwapRows (n w : Nat) (E : Nat → Nat → Nat) (a b : Nat) (ha : a < n) (hb : b < n) :
    Gen.matrix_SwapRows (arr n w E) (a : Int) (b : Int) = some (arr n w (fun i j => E (swp a b i) j), none) :=
  swapRows_arr n w E a b ha hb

/-- `SwapRows` with a row index out of range (negative or `≥ len(m)`) returns `errInvalidRowSize`, leaves the matrix
as it is and does not panic — for every matrix value and every pair of `int`s -/
theorem C17m_SwapRows_invalid (m : Array (Array Nat)) (r1 r2 : Int)
    (h : r1 < 0 ∨ (m.size : Int) ≤ r1 ∨ r2 < 0 ∨ (m.size : Int) ≤ r2) :
    Gen.matrix_SwapRows m r1 r2 = some (m, some "errInvalidRowSize") := by
  unfold Gen.matrix_SwapRows
  have hc : (((r1 < 0) ∨ ((Int.ofNat m.size) ≤ r1)) ∨ (r2 < 0)) ∨ ((Int.ofNat m.size) ≤ r2) := by
    simp only [Int.ofNat_eq_natCast]; omega
  simp only [hc, if_true]
  rfl

example : Gen.matrix_SwapRows #[#[1, 2], #[3, 4], #[5, 6]] 0 2 = some (#[#[5, 6], #[3, 4], #[1, 2]], none) := by
  decide +kernel
example : Gen.matrix_SwapRows #[#[1, 2], #[3, 4]] 0 2 = some (#[#[1, 2], #[3, 4]], some "errInvalidRowSize") :=
  C17m_SwapRows_invalid _ 0 2 (by decide)

/-- `identityMatrix(n)` is the `n × n` identity, every `n > 0` -/
theorem C17m_identityMatrix (n : Nat) (hn : 0 < n) :
    Gen.identityMatrix (n : Int) = some (arr n n (fun i j => if i = j then 1 else 0), none) :=
  GenInvert.identity_arr n hn

/-- `Augment` of an `n × w1` and an `n × w2` matrix is `[A | B]`: columns `< w1` from the receiver, the rest from
`right`, every shape below the `int` wrap-around -/
theorem C17m_Augment (n w1 w2 : Nat) (A B : Nat → Nat → Nat) (hn : 0 < n) (h1 : 0 < w1) (h2 : 0 < w2)
    (hb : w1 + w2 < 2 ^ 63) :
    Gen.matrix_Augment (arr n w1 A) (arr n w2 B) =
      some (arr n (w1 + w2) (fun i j => if j < w1 then A i j else B i (j - w1)), none) :=
  GenInvert.augment_arr n w1 w2 A B hn h1 h2 (by omega)

/-- `Augment` of matrices with different row counts reports `errMatrixSize` and does not panic -/
theorem C17m_Augment_size (m right : Array (Array Nat)) (h : m.size ≠ right.size) :
    Gen.matrix_Augment m right = some (#[], some "errMatrixSize") := by
  unfold Gen.matrix_Augment
  have hc : (Int.ofNat m.size) ≠ (Int.ofNat right.size) := by
    simp only [Int.ofNat_eq_natCast]; omega
  rw [if_pos hc]
  rfl

example : Gen.matrix_Augment #[#[1, 2], #[3, 4]] #[#[5], #[6]] = some (#[#[1, 2, 5], #[3, 4, 6]], none) := by
  decide +kernel
example : Gen.identityMatrix 2 = some (#[#[1, 0], #[0, 1]], none) := by decide +kernel

/-- `newMatrix` with a non-positive row count reports `errInvalidRowSize`, for every pair of `int`s -/
theorem C17m_newMatrix_rows (rows cols : Int) (h : rows ≤ 0) :
    Gen.newMatrix rows cols = some (#[], some "errInvalidRowSize") := by
  unfold Gen.newMatrix
  rw [if_pos h]
  rfl

/-- `newMatrix` with a positive row count and a non-positive column count reports `errInvalidColSize` -/
theorem C17m_newMatrix_cols (rows cols : Int) (hr : 0 < rows) (h : cols ≤ 0) :
    Gen.newMatrix rows cols = some (#[], some "errInvalidColSize") := by
  unfold Gen.newMatrix
  rw [if_neg (by omega), if_pos h]
  rfl

/-- `IsSquare` of an `n × w` matrix (`n > 0`) answers `n = w` -/
theorem C17m_IsSquare (n w : Nat) (E : Nat → Nat → Nat) (hn : 0 < n) :
    Gen.matrix_IsSquare (arr n w E) = some (decide (n = w)) := by
  unfold Gen.matrix_IsSquare
  rw [show (0 : Int) = ((0 : Nat) : Int) from rfl, gidx_arr hn]
  simp only [Option.bind_eq_bind, Option.bind_some, Option.pure_def, size_arr, GenMatrix.size_mkRow,
    Int.ofNat_eq_natCast, Int.natCast_inj]

example : Gen.newMatrix 0 3 = some (#[], some "errInvalidRowSize") := C17m_newMatrix_rows 0 3 (by decide)
example : Gen.newMatrix 2 (-1) = some (#[], some "errInvalidColSize") := C17m_newMatrix_cols 2 (-1) (by decide) (by decide)

end RSV.Props.C17submatrix

#print axioms RSV.Props.C17submatrix.C17m_SubMatrix
#print axioms RSV.Props.C17submatrix.C17m_SwapRows
#print axioms RSV.Props.C17submatrix.C17m_SwapRows_invalid
#print axioms RSV.Props.C17submatrix.C17m_identityMatrix
#print axioms RSV.Props.C17submatrix.C17m_Augment
#print axioms RSV.Props.C17submatrix.C17m_Augment_size
#print axioms RSV.Props.C17submatrix.C17m_newMatrix_rows
#print axioms RSV.Props.C17submatrix.C17m_newMatrix_cols
#print axioms RSV.Props.C17submatrix.C17m_IsSquare
