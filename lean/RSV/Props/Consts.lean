import RSV.Gen.Facts
/-!
Constants regenerated from the Go sources (Tie A) that the models take as fixed numbers.  If one of
them is edited in /repo these theorems stop checking and the affected checks report a broken
obligation; the correspondence run then decides whether a property is actually violated.
-/
namespace RSV.Props.Consts
open RSV.Gen

/-- thresholds of the code-generated kernels as assumed by `RSV.Model.Dispatch` / `RSV.Model.Kernels` -/
theorem dispatch_constants :
    minCodeGenSize = 64 ∧ codeGenMinSize = 64 ∧ codeGenMinShards = 3 ∧ codeGenMaxInputs = 10 ∧ codeGenMaxOutputs = 10 ∧
    codeGenMaxGoroutines = 8 ∧ gfniCodeGenMaxGoroutines = 4 := by decide

/-- Leopard work-chunk size and cache-key width -/
theorem leopard_constants : workSize8 = 32768 ∧ workSize8 % 64 = 0 ∧ inversion8Bytes * 8 = order8 := by decide

/-- the mip-map masks of the error bit field: alternating blocks of 1, 2, 4, 8, 16 set bits -/
theorem hi_masks : kHiMasks = [0xAAAAAAAAAAAAAAAA, 0xCCCCCCCCCCCCCCCC, 0xF0F0F0F0F0F0F0F0, 0xFF00FF00FF00FF00, 0xFFFF0000FFFF0000] := by
  decide

/-- `AllocAligned` alignment constants -/
theorem alloc_constants : unsafe_alignEach = 64 ∧ unsafe_alignStart = 64 := by decide

end RSV.Props.Consts
