/-!
# L0: GF(2^k) from first principles (core Lean only)

Carry-less shift-and-reduce arithmetic on natural numbers below `2^k`.
`poly` is the full reduction polynomial including the `x^k` term (0x11D for k = 8,
0x1002D for k = 16).  Nothing in this file comes from the repository.
-/
namespace RSV.BF

/-- multiply by `x` modulo `poly`, on `k`-bit values -/
def xtime (k poly a : Nat) : Nat :=
  if a.testBit (k-1) then (a <<< 1) ^^^ poly else a <<< 1

/-- Russian-peasant multiply: fuel = number of bits of `b` still to consume -/
def pmulAux (k poly : Nat) : Nat → Nat → Nat → Nat
  | 0, _, _ => 0
  | n+1, a, b => (if b.testBit 0 then a else 0) ^^^ pmulAux k poly n (xtime k poly a) (b >>> 1)

/-- product of two `k`-bit values in GF(2)[x]/(poly) -/
def pmul (k poly a b : Nat) : Nat := pmulAux k poly k a b

/-- `a^n` by repeated multiplication -/
def ppow (k poly a : Nat) : Nat → Nat
  | 0 => 1
  | n+1 => pmul k poly (ppow k poly a n) a

theorem xtime_xor (k poly a b : Nat) :
    xtime k poly (a ^^^ b) = xtime k poly a ^^^ xtime k poly b := by
  unfold xtime
  rw [Nat.testBit_xor, Nat.shiftLeft_xor_distrib]
  cases a.testBit (k-1) <;> cases b.testBit (k-1) <;> simp <;>
    (apply Nat.eq_of_testBit_eq; intro i; simp only [Nat.testBit_xor];
     cases (a <<< 1).testBit i <;> cases (b <<< 1).testBit i <;> cases poly.testBit i <;> rfl)

theorem pmulAux_xor_left (k poly n : Nat) : ∀ a a' b,
    pmulAux k poly n (a ^^^ a') b = pmulAux k poly n a b ^^^ pmulAux k poly n a' b := by
  induction n with
  | zero => intro a a' b; simp [pmulAux]
  | succ n ih =>
    intro a a' b
    simp only [pmulAux, xtime_xor, ih]
    cases b.testBit 0 <;> simp
    · generalize pmulAux k poly n (xtime k poly a) (b >>> 1) = P
      generalize pmulAux k poly n (xtime k poly a') (b >>> 1) = Q
      apply Nat.eq_of_testBit_eq; intro i; simp [Nat.testBit_xor]
      cases a.testBit i <;> cases a'.testBit i <;> cases P.testBit i <;> cases Q.testBit i <;> rfl

theorem pmulAux_xor_right (k poly n : Nat) : ∀ a b b',
    pmulAux k poly n a (b ^^^ b') = pmulAux k poly n a b ^^^ pmulAux k poly n a b' := by
  induction n with
  | zero => intro a b b'; simp [pmulAux]
  | succ n ih =>
    intro a b b'
    simp only [pmulAux, Nat.shiftRight_xor_distrib, ih, Nat.testBit_xor]
    generalize pmulAux k poly n (xtime k poly a) (b >>> 1) = P
    generalize pmulAux k poly n (xtime k poly a) (b' >>> 1) = Q
    apply Nat.eq_of_testBit_eq; intro i
    cases b.testBit 0 <;> cases b'.testBit 0 <;> simp [Nat.testBit_xor] <;>
      cases a.testBit i <;> cases P.testBit i <;> cases Q.testBit i <;> rfl

theorem pmul_xor_left (k poly a a' b : Nat) :
    pmul k poly (a ^^^ a') b = pmul k poly a b ^^^ pmul k poly a' b :=
  pmulAux_xor_left k poly k a a' b

theorem pmul_xor_right (k poly a b b' : Nat) :
    pmul k poly a (b ^^^ b') = pmul k poly a b ^^^ pmul k poly a b' :=
  pmulAux_xor_right k poly k a b b'

/-- additive maps agreeing on the basis `2^i` (`i<k`) agree below `2^k` -/
theorem ext_of_basis (f g : Nat → Nat)
    (hf : ∀ a b, f (a ^^^ b) = f a ^^^ f b) (hg : ∀ a b, g (a ^^^ b) = g a ^^^ g b)
    (k : Nat) (hb : ∀ i, i < k → f (2^i) = g (2^i)) : ∀ a, a < 2^k → f a = g a := by
  have f0 : f 0 = 0 := by have := hf 0 0; simpa using this
  have g0 : g 0 = 0 := by have := hg 0 0; simpa using this
  induction k with
  | zero => intro a ha; have : a = 0 := by simpa using ha
            subst this; rw [f0, g0]
  | succ k ih =>
    intro a ha
    have ih' := ih (fun i hi => hb i (Nat.lt_succ_of_lt hi))
    have hsplit : a = (a % 2^k) ^^^ (if a.testBit k then 2^k else 0) := by
      apply Nat.eq_of_testBit_eq; intro i
      by_cases hk : a.testBit k
      · simp only [hk, if_true, Nat.testBit_xor, Nat.testBit_mod_two_pow, Nat.testBit_two_pow]
        by_cases hik : i < k
        · simp [hik, Nat.ne_of_gt hik]
        · by_cases hik2 : k = i
          · subst hik2; simp [hk]
          · have : k < i := by omega
            have h1 : a.testBit i = false := by
              apply Nat.testBit_lt_two_pow
              exact Nat.lt_of_lt_of_le ha (Nat.pow_le_pow_right (by decide) (by omega))
            simp [hik, hik2, h1]
      · simp only [hk, Nat.testBit_xor, Nat.testBit_mod_two_pow]
        by_cases hik : i < k
        · simp [hik]
        · by_cases hik2 : k = i
          · subst hik2; simp [hk]
          · have h1 : a.testBit i = false := by
              apply Nat.testBit_lt_two_pow
              exact Nat.lt_of_lt_of_le ha (Nat.pow_le_pow_right (by decide) (by omega))
            simp [hik, h1]
    rw [hsplit, hf, hg, ih' _ (Nat.mod_lt _ (Nat.two_pow_pos k))]
    by_cases hk : a.testBit k
    · simp only [hk, if_true]; rw [hb k (Nat.lt_succ_self k)]
    · simp only [hk]; simp [f0, g0]

end RSV.BF
