import RSV.Spec.BinField
/-!
# L0: the field GF(2^8) of the matrix codec — polynomials over GF(2) modulo
`x^8+x^4+x^3+x^2+1` (0x11D).  Core Lean only.
-/
namespace RSV

/-- reduction polynomial of the GF(2^8) matrix codec, including the `x^8` term -/
def poly8 : Nat := 0x11D

/-- product in GF(2^8) on naturals below 256 -/
def gmul (a b : Nat) : Nat := BF.pmul 8 poly8 a b

/-- `a^n` in GF(2^8) -/
def gpow (a n : Nat) : Nat := BF.ppow 8 poly8 a n

/-- `a^254` (the inverse of a non-zero `a`) by a square-and-multiply chain of 13 multiplications -/
def ginvChain (a : Nat) : Nat :=
  let s1 := gmul a a
  let s2 := gmul s1 s1
  let s3 := gmul s2 s2
  let s4 := gmul s3 s3
  let s5 := gmul s4 s4
  let s6 := gmul s5 s5
  let s7 := gmul s6 s6
  gmul s1 (gmul s2 (gmul s3 (gmul s4 (gmul s5 (gmul s6 s7)))))

/-- entry `i` of a table of bytes packed little-endian in a natural number -/
@[inline] def byteAt (t i : Nat) : Nat := (t >>> (8*i)) &&& 0xFF

/-- entry `i` of a table of 64-bit words packed little-endian -/
@[inline] def wordAt (t i : Nat) : Nat := (t >>> (64*i)) &&& 0xFFFFFFFFFFFFFFFF

end RSV
