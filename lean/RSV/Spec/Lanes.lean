import RSV.Spec.GF256
/-!
# L0: per-byte-lane semantics of the two SIMD multiplication recipes (core Lean only)

* PSHUFB recipe: `low[c][x & 15] ^ high[c][x >> 4]`.
* GFNI recipe: `GF2P8AFFINEQB dst, x, A, imm8 = 0` — for every byte `x` of the source,
  bit `i` of the result is the parity of `A.byte[7-i] AND x` (Intel SDM, GF2P8AFFINEQB).
-/
namespace RSV

/-- parity of the low 8 bits -/
def parity8 (v : Nat) : Nat :=
  let v := v ^^^ (v >>> 4)
  let v := v ^^^ (v >>> 2)
  let v := v ^^^ (v >>> 1)
  v &&& 1

/-- one result bit of GF2P8AFFINEQB -/
def affineBit (m x i : Nat) : Nat := parity8 (byteAt m (7 - i) &&& x)

/-- the byte GF2P8AFFINEQB produces for source byte `x` and 8×8 bit matrix `m` (imm8 = 0) -/
def affineByte (m x : Nat) : Nat :=
  affineBit m x 0 ||| (affineBit m x 1 <<< 1) ||| (affineBit m x 2 <<< 2) ||| (affineBit m x 3 <<< 3) |||
  (affineBit m x 4 <<< 4) ||| (affineBit m x 5 <<< 5) ||| (affineBit m x 6 <<< 6) ||| (affineBit m x 7 <<< 7)

end RSV
