#!/bin/sh
# Build the framework from files on disk only (offline).
set -e
cd "$(dirname "$0")"
export GOFLAGS=-mod=mod GOPROXY=off GOSUMDB=off GOTOOLCHAIN=local
mkdir -p bin work evidence replays
(cd tools/extract && go build -o ../../bin/extract .)
./bin/extract /repo lean/RSV/Gen
(cd lean && lake build RSV driver)
cp /repo/go.sum harness/go.sum
(cd harness && go build -tags verif -o ../bin/harness .)
echo setup done
