// funcs.go: a tiny, strict Go-subset -> Lean translator (part of Tie A).
//
// It translates the small pure scalar functions of the repository into Lean definitions
// (RSV/Gen/Funcs.lean) so that the Lean side can prove that the *code as it is now* equals the
// hand-written model/spec functions, for all inputs.
//
// Encoding (fixed, mechanical):
//   - uint8/byte/ffe8, uint16/ffe, uint/uint64/uintptr values are Lean `Nat`s kept below 2^w: every
//     operation that can leave the range in Go (+ - * <<, narrowing conversions) is followed by an
//     explicit wrap `u8`/`u16`/`u64` (= `% 2^w`); subtraction is `u64 (a + 2^64 - b)`.
//   - int (64 bit) values are Lean `Int`s kept in [-2^63, 2^63): + - * << / are wrapped by `i64`.
//   - bool expressions are decidable `Prop`s (`decide` where a Bool value is needed).
//   - panic(..), an out-of-range index, a negative shift count, a zero divisor and a loop that
//     does not terminate all make the function return `none` (result type `Option T`); a function
//     in which none of these can occur is translated to a total function of result type `T`.
//   - `for cond { .. }` loops become auxiliary `partial_fixpoint` functions in `Option`.
//   - reads of the static tables of galois.go read the regenerated packed tables of
//     RSV/Gen/Tables.lean; package-level arrays that are filled at run time (Leopard's LUTs) and
//     the fields of a method receiver become explicit parameters.
//
// On ANY construct outside this subset the translator stops with an error (exit status 2).
package main

import (
	"fmt"
	"go/ast"
	"go/constant"
	"go/token"
	"math/big"
	"regexp"
	"sort"
	"strings"
)

// ---------- types ----------

type gkind int

const (
	kUint gkind = iota
	kInt
	kBool
	kUntyped // untyped integer constant
	kArray
	kTuple
	kSlice // imperative mode only
	kError // imperative mode only: Go `error`, Lean `Option String` (nil = none)
	kNil   // the untyped nil
	kShape // shape mode only: one shard of a `[][]byte` parameter, of which only the length is kept (Lean `Nat`)
)

type gtype struct {
	kind gkind
	bits int      // kUint: 8, 16, 64; kInt: 64
	elem *gtype   // kArray
	n    int64    // kArray: length
	tup  []*gtype // kTuple
	name string   // declared name of a named slice type (method lookup); ignored by sameType
}

var (
	tU8      = &gtype{kind: kUint, bits: 8}
	tU16     = &gtype{kind: kUint, bits: 16}
	tU64     = &gtype{kind: kUint, bits: 64}
	tInt     = &gtype{kind: kInt, bits: 64}
	tBool    = &gtype{kind: kBool}
	tUntyped = &gtype{kind: kUntyped}
	tError   = &gtype{kind: kError}
	tNil     = &gtype{kind: kNil}
	tShape   = &gtype{kind: kShape}
)

func sameType(a, b *gtype) bool {
	if a.kind != b.kind {
		return false
	}
	switch a.kind {
	case kUint, kInt:
		return a.bits == b.bits
	case kArray:
		return a.n == b.n && sameType(a.elem, b.elem)
	case kSlice:
		return sameType(a.elem, b.elem)
	case kTuple:
		if len(a.tup) != len(b.tup) {
			return false
		}
		for i := range a.tup {
			if !sameType(a.tup[i], b.tup[i]) {
				return false
			}
		}
	}
	return true
}

func (t *gtype) lean() string {
	switch t.kind {
	case kUint, kShape:
		return "Nat"
	case kInt:
		return "Int"
	case kBool:
		return "Bool"
	case kArray, kSlice:
		if t.elem.kind == kArray || t.elem.kind == kSlice {
			return "Array (" + t.elem.lean() + ")"
		}
		return "Array " + t.elem.lean()
	case kError:
		return "Option String"
	case kTuple:
		parts := make([]string, len(t.tup))
		for i, x := range t.tup {
			parts[i] = x.lean()
		}
		return strings.Join(parts, " × ")
	}
	panic("lean(): untyped")
}

func (t *gtype) String() string {
	switch t.kind {
	case kUint:
		return fmt.Sprintf("uint%d", t.bits)
	case kInt:
		return "int"
	case kBool:
		return "bool"
	case kUntyped:
		return "untyped constant"
	case kArray:
		return fmt.Sprintf("[%d]%s", t.n, t.elem)
	case kSlice:
		return "[]" + t.elem.String()
	case kError:
		return "error"
	case kNil:
		return "nil"
	case kShape:
		return "shard (shape mode: only its length is known)"
	}
	return "tuple"
}

func hasSlice(t *gtype) bool {
	switch t.kind {
	case kSlice, kError, kNil:
		return true
	case kArray:
		return hasSlice(t.elem)
	case kTuple:
		for _, x := range t.tup {
			if hasSlice(x) {
				return true
			}
		}
	}
	return false
}

func pow2(n int) *big.Int { return new(big.Int).Lsh(big.NewInt(1), uint(n)) }

func bigOf(v constant.Value) *big.Int {
	v = constant.ToInt(v)
	if v.Kind() != constant.Int {
		return nil
	}
	if i, ok := constant.Int64Val(v); ok {
		return big.NewInt(i)
	}
	b, ok := new(big.Int).SetString(v.ExactString(), 10)
	if !ok {
		return nil
	}
	return b
}

func representable(v constant.Value, t *gtype) bool {
	b := bigOf(v)
	if b == nil {
		return false
	}
	switch t.kind {
	case kUint:
		return b.Sign() >= 0 && b.Cmp(pow2(t.bits)) < 0
	case kInt:
		lim := pow2(63)
		return b.Cmp(new(big.Int).Neg(lim)) >= 0 && b.Cmp(lim) < 0
	}
	return false
}

// ---------- translator state ----------

type fspec struct {
	file, recv, name, lean string
	imp                    bool     // imperative mode (slices, loops, in-place updates): emitted as a `do` block
	group                  string   // output file: "" = Funcs.lean
	shape                  bool     // shape mode (imperative mode only): a `[][]byte` parameter is the array of the shard lengths
	upto                   []string // prefix mode (shape mode only): translate the top-level statements up to the last definition of these int locals and return their values
}

type tableInfo struct {
	dims     []int
	bytesPer int
}

type paramInfo struct {
	name string
	t    *gtype
}

type fnInfo struct {
	spec    fspec
	globals []paramInfo // run-time package-level arrays, sorted by name
	params  []paramInfo // receiver fields first, then the Go parameters
	result  *gtype
	partial bool
	text    string
	imp     bool
	mut     []int    // imperative mode: indices (into params) of slice parameters whose elements are written
	results []*gtype // imperative mode: the Go results
}

type translator struct {
	fset   *token.FileSet
	files  map[string]*ast.File
	order  []string // file names in a fixed order
	tables map[string]tableInfo
	funcs  map[string]*fnInfo // by Go key "recv.name"
	specs  map[string]fspec   // by Go key
	active map[string]bool
	out    []string // lean names in emission order
}

type scope struct {
	parent *scope
	vars   map[string]*gtype
	order  []string
	block  bool // true: a nested Go block whose assignments to outer variables are recorded
	mod    *[]string
}

func (s *scope) lookup(n string) (*gtype, *scope) {
	for c := s; c != nil; c = c.parent {
		if t, ok := c.vars[n]; ok {
			return t, c
		}
	}
	return nil, nil
}

func (s *scope) declare(n string, t *gtype) {
	if _, ok := s.vars[n]; !ok {
		s.order = append(s.order, n)
	}
	s.vars[n] = t
}

func newScope(parent *scope) *scope {
	return &scope{parent: parent, vars: map[string]*gtype{}}
}

// visible variables, outermost first, in declaration order
func (s *scope) visible() []paramInfo {
	var chain []*scope
	for c := s; c != nil; c = c.parent {
		chain = append([]*scope{c}, chain...)
	}
	var res []paramInfo
	seen := map[string]int{}
	for _, c := range chain {
		for _, n := range c.order {
			if i, ok := seen[n]; ok {
				res[i].t = c.vars[n]
				continue
			}
			seen[n] = len(res)
			res = append(res, paramInfo{n, c.vars[n]})
		}
	}
	return res
}

// per-function context
type fctx struct {
	tr       *translator
	file     string
	info     *fnInfo
	recvName string
	recvFlds map[string]*gtype
	partial  bool // translate as Option-valued
	usedNone bool
	globals  map[string]*gtype
	nloops   int
	aux      []string // auxiliary loop definitions
	// imperative mode
	imp     bool
	mutPar  map[string]bool // slice parameters written (directly or through a callee)
	ntmp    int
	isParam map[string]bool
	lenArg  ast.Expr // shape mode: the argument of the len(..) being translated (the only place a shard may occur)
	// shape mode, struct receiver: the scalar fields that are read become parameters `<recv>_<field>`
	fldPrefix string
	usedFlds  map[string]bool
	declared  map[string]bool // imperative mode: every local declared
}

type ex struct {
	s       string
	t       *gtype
	c       constant.Value
	prop    bool // kBool only: s is a Prop (otherwise a Bool term)
	checks  []string
	fresh   bool   // imperative mode: a slice value that is not shared with anything (make, call result, nil)
	varName string // imperative mode: the expression is this plain variable
}

func (tr *translator) fail(n ast.Node, f string, a ...interface{}) {
	pos := ""
	if n != nil {
		pos = tr.fset.Position(n.Pos()).String() + ": "
	}
	fatal("translate: "+pos+f, a...)
}

var leanReserved = map[string]bool{"at": true, "from": true, "end": true, "then": true, "else": true, "fun": true,
	"let": true, "have": true, "show": true, "do": true, "in": true, "with": true, "match": true, "if": true,
	"def": true, "theorem": true, "open": true, "namespace": true, "section": true, "instance": true, "where": true,
	"by": true, "macro": true, "syntax": true, "mut": true, "for": true, "return": true, "some": true, "none": true,
	"true": true, "false": true, "Type": true, "Prop": true, "Sort": true, "u8": true, "u16": true, "u64": true,
	"i64": true, "shI64": true, "shIand64": true, "shIdx": true, "shFrom": true, "lz64": true, "iand64": true, "ior64": true, "ixor64": true, "gidx": true, "gset": true, "gset2": true, "decide": true, "Nat": true, "Int": true}

func leanIdent(n string) string {
	if leanReserved[n] {
		return n + "'"
	}
	return n
}

// ---------- constants ----------

// constLookup finds a package-level constant: the function's own file first, then the other files.
func (tr *translator) constLookup(file, name string) (constant.Value, *gtype, bool) {
	names := append([]string{file}, tr.order...)
	for _, fn := range names {
		f := tr.files[fn]
		env := fileConsts(f)
		if v, ok := env[name]; ok {
			return v, tr.constDeclType(fn, name, 0), true
		}
	}
	return nil, nil, false
}

// constDeclType: the declared type of a package-level constant (tUntyped if it has none)
func (tr *translator) constDeclType(file, name string, depth int) *gtype {
	if depth > 20 {
		tr.fail(nil, "constant %s: declaration too deep", name)
	}
	f := tr.files[file]
	for _, d := range f.Decls {
		gd, ok := d.(*ast.GenDecl)
		if !ok || gd.Tok != token.CONST {
			continue
		}
		for _, s := range gd.Specs {
			vs := s.(*ast.ValueSpec)
			for i, n := range vs.Names {
				if n.Name != name {
					continue
				}
				if vs.Type != nil {
					return tr.resolveType(file, vs.Type)
				}
				if i >= len(vs.Values) {
					tr.fail(vs, "constant %s without value (iota lists are not supported)", name)
				}
				return tr.constExprType(file, vs.Values[i], depth+1)
			}
		}
	}
	return tUntyped
}

func (tr *translator) constExprType(file string, e ast.Expr, depth int) *gtype {
	switch x := e.(type) {
	case *ast.BasicLit:
		return tUntyped
	case *ast.ParenExpr:
		return tr.constExprType(file, x.X, depth)
	case *ast.UnaryExpr:
		return tr.constExprType(file, x.X, depth)
	case *ast.Ident:
		if x.Name == "iota" {
			tr.fail(x, "iota is not supported")
		}
		_, t, ok := tr.constLookupDepth(file, x.Name, depth)
		if !ok {
			tr.fail(x, "constant expression refers to unknown %s", x.Name)
		}
		return t
	case *ast.BinaryExpr:
		a := tr.constExprType(file, x.X, depth)
		if x.Op == token.SHL || x.Op == token.SHR {
			return a
		}
		b := tr.constExprType(file, x.Y, depth)
		if a.kind != kUntyped {
			return a
		}
		return b
	case *ast.CallExpr:
		if len(x.Args) == 1 {
			if id, ok := x.Fun.(*ast.Ident); ok {
				return tr.resolveType(file, id)
			}
		}
	}
	tr.fail(e, "unsupported constant expression")
	return nil
}

func (tr *translator) constLookupDepth(file, name string, depth int) (constant.Value, *gtype, bool) {
	names := append([]string{file}, tr.order...)
	for _, fn := range names {
		env := fileConsts(tr.files[fn])
		if v, ok := env[name]; ok {
			return v, tr.constDeclType(fn, name, depth+1), true
		}
	}
	return nil, nil, false
}

// ---------- Go types ----------

func (tr *translator) findTypeSpec(name string) (*ast.TypeSpec, string) {
	var res *ast.TypeSpec
	var rfile string
	for _, fn := range tr.order {
		for _, d := range tr.files[fn].Decls {
			gd, ok := d.(*ast.GenDecl)
			if !ok || gd.Tok != token.TYPE {
				continue
			}
			for _, s := range gd.Specs {
				ts := s.(*ast.TypeSpec)
				if ts.Name.Name == name {
					if res != nil {
						tr.fail(ts, "type %s declared twice", name)
					}
					res, rfile = ts, fn
				}
			}
		}
	}
	return res, rfile
}

func (tr *translator) resolveType(file string, e ast.Expr) *gtype {
	switch x := e.(type) {
	case *ast.Ident:
		switch x.Name {
		case "byte", "uint8":
			return tU8
		case "uint16":
			return tU16
		case "uint", "uint64", "uintptr":
			return tU64
		case "int", "int64":
			return tInt
		case "bool":
			return tBool
		case "error":
			return tError
		}
		ts, tfile := tr.findTypeSpec(x.Name)
		if ts == nil {
			tr.fail(x, "unknown type %s", x.Name)
		}
		if ts.TypeParams != nil {
			tr.fail(x, "generic type %s", x.Name)
		}
		if _, isStruct := ts.Type.(*ast.StructType); isStruct {
			tr.fail(x, "struct type %s used as a value", x.Name)
		}
		ut := tr.resolveType(tfile, ts.Type)
		if ut.kind == kSlice {
			return &gtype{kind: kSlice, elem: ut.elem, name: x.Name}
		}
		return ut
	case *ast.ParenExpr:
		return tr.resolveType(file, x.X)
	case *ast.ArrayType:
		if x.Len == nil {
			return &gtype{kind: kSlice, elem: tr.resolveType(file, x.Elt)}
		}
		v, ok := tr.evalConstExpr(file, x.Len)
		if !ok {
			tr.fail(x, "array length is not a constant")
		}
		n, ok := constant.Int64Val(constant.ToInt(v))
		if !ok || n < 0 {
			tr.fail(x, "bad array length")
		}
		return &gtype{kind: kArray, elem: tr.resolveType(file, x.Elt), n: n}
	case *ast.StarExpr: // pointer to array: indexing dereferences automatically
		t := tr.resolveType(file, x.X)
		if t.kind != kArray {
			tr.fail(x, "pointer types other than pointer-to-array are not supported")
		}
		return t
	}
	tr.fail(e, "unsupported type expression")
	return nil
}

// evalConstExpr evaluates a package-level constant expression (all package constants visible)
func (tr *translator) evalConstExpr(file string, e ast.Expr) (constant.Value, bool) {
	env := map[string]constant.Value{}
	names := append([]string{}, tr.order...)
	// own file last so that it wins
	names = append(names, file)
	for _, fn := range names {
		for k, v := range fileConsts(tr.files[fn]) {
			env[k] = v
		}
	}
	return evalConst(e, env)
}

// ---------- literals ----------

func litOf(v constant.Value, t *gtype) string {
	b := bigOf(v)
	if b.Sign() < 0 {
		return "(" + b.String() + ")"
	}
	return b.String()
}

// materialise an untyped constant at type t
func (fc *fctx) mat(n ast.Node, e ex, t *gtype) ex {
	if e.t.kind != kUntyped {
		return e
	}
	if t == nil || (t.kind != kUint && t.kind != kInt) {
		fc.tr.fail(n, "cannot determine the type of an untyped constant here")
	}
	if !representable(e.c, t) {
		fc.tr.fail(n, "constant %s overflows %s", e.c.ExactString(), t)
	}
	return ex{s: litOf(e.c, t), t: t, c: e.c}
}

func wrapName(t *gtype) string {
	if t.kind == kInt {
		return "i64"
	}
	return fmt.Sprintf("u%d", t.bits)
}

func joinChecks(a, b []string) []string {
	res := append([]string{}, a...)
	for _, x := range b {
		dup := false
		for _, y := range res {
			if x == y {
				dup = true
			}
		}
		if !dup {
			res = append(res, x)
		}
	}
	return res
}

// Nat-valued index/shift count from an unsigned or int expression
func natOf(e ex) string {
	if e.c != nil {
		return bigOf(e.c).String()
	}
	if e.t.kind == kInt {
		return "(Int.toNat " + e.s + ")"
	}
	return e.s
}

// ---------- expressions ----------

func (fc *fctx) expr(e ast.Expr, sc *scope, hint *gtype) ex {
	r := fc.expr1(e, sc, hint)
	if r.t != nil && r.t.kind == kShape && stripParens(e) != fc.lenArg {
		fc.tr.fail(e, "shape mode: a shard of a [][]byte parameter may only be measured with len(..); any other use "+
			"(indexing or slicing its bytes, comparing, copying, storing, passing it on) is not supported")
	}
	return r
}

func stripParens(e ast.Expr) ast.Expr {
	for {
		p, ok := e.(*ast.ParenExpr)
		if !ok {
			return e
		}
		e = p.X
	}
}

func (fc *fctx) expr1(e ast.Expr, sc *scope, hint *gtype) ex {
	tr := fc.tr
	if fc.imp {
		if r, ok := fc.impExpr(e, sc, hint); ok {
			return r
		}
	}
	switch x := e.(type) {
	case *ast.BasicLit:
		if x.Kind != token.INT {
			tr.fail(x, "only integer literals are supported")
		}
		v := constant.MakeFromLiteral(x.Value, x.Kind, 0)
		return ex{t: tUntyped, c: v}
	case *ast.ParenExpr:
		return fc.expr(x.X, sc, hint)
	case *ast.Ident:
		return fc.ident(x, sc)
	case *ast.SelectorExpr:
		if id, ok := x.X.(*ast.Ident); ok && fc.recvName != "" && id.Name == fc.recvName {
			if _, shadow := sc.lookup(id.Name); shadow == nil {
				if t, ok := fc.recvFlds[x.Sel.Name]; ok {
					if fc.fldPrefix != "" {
						fc.usedFlds[x.Sel.Name] = true
						return ex{s: fc.fldPrefix + x.Sel.Name, t: t}
					}
					return ex{s: leanIdent(x.Sel.Name), t: t}
				}
				if fc.fldPrefix != "" {
					tr.fail(x, "shape mode: only the scalar fields of the receiver can be read (field %s)", x.Sel.Name)
				}
				tr.fail(x, "receiver has no field %s", x.Sel.Name)
			}
		}
		tr.fail(x, "unsupported selector expression")
	case *ast.UnaryExpr:
		return fc.unary(x, sc, hint)
	case *ast.BinaryExpr:
		return fc.binary(x, sc, hint)
	case *ast.CallExpr:
		return fc.call(x, sc, hint)
	case *ast.IndexExpr:
		return fc.index(x, sc)
	}
	tr.fail(e, "unsupported expression (%T)", e)
	return ex{}
}

func (fc *fctx) ident(x *ast.Ident, sc *scope) ex {
	tr := fc.tr
	if t, _ := sc.lookup(x.Name); t != nil {
		return ex{s: leanIdent(x.Name), t: t}
	}
	switch x.Name {
	case "true":
		return ex{s: "true", t: tBool}
	case "false":
		return ex{s: "false", t: tBool}
	case "nil", "iota", "_":
		tr.fail(x, "unsupported identifier %s", x.Name)
	}
	if v, t, ok := tr.constLookup(fc.file, x.Name); ok {
		if v.Kind() == constant.Bool {
			if constant.BoolVal(v) {
				return ex{s: "true", t: tBool}
			}
			return ex{s: "false", t: tBool}
		}
		if bigOf(v) == nil {
			tr.fail(x, "constant %s is not an integer", x.Name)
		}
		if t.kind == kUntyped {
			return ex{t: tUntyped, c: v}
		}
		if !representable(v, t) {
			tr.fail(x, "constant %s overflows its type", x.Name)
		}
		return ex{s: litOf(v, t), t: t, c: v}
	}
	if _, ok := tr.tables[x.Name]; ok {
		tr.fail(x, "static table %s may only be indexed", x.Name)
	}
	if t := fc.globalVar(x); t != nil {
		return ex{s: leanIdent(x.Name), t: t}
	}
	tr.fail(x, "unknown identifier %s", x.Name)
	return ex{}
}

// globalVar: a package-level `var name T` of array / pointer-to-array type WITHOUT initialiser
// (filled at run time) becomes an explicit parameter of the translated function.
func (fc *fctx) globalVar(x *ast.Ident) *gtype {
	tr := fc.tr
	var found *gtype
	for _, fn := range tr.order {
		for _, d := range tr.files[fn].Decls {
			gd, ok := d.(*ast.GenDecl)
			if !ok || gd.Tok != token.VAR {
				continue
			}
			for _, s := range gd.Specs {
				vs := s.(*ast.ValueSpec)
				for _, n := range vs.Names {
					if n.Name != x.Name {
						continue
					}
					if found != nil {
						tr.fail(x, "package variable %s declared twice", x.Name)
					}
					if len(vs.Values) != 0 || vs.Type == nil {
						tr.fail(x, "package variable %s has an initialiser: not supported", x.Name)
					}
					t := tr.resolveType(fn, vs.Type)
					if t.kind != kArray {
						tr.fail(x, "package variable %s is not an array", x.Name)
					}
					found = t
				}
			}
		}
	}
	if found != nil {
		fc.globals[x.Name] = found
	}
	return found
}

func (fc *fctx) unary(x *ast.UnaryExpr, sc *scope, hint *gtype) ex {
	tr := fc.tr
	a := fc.expr(x.X, sc, hint)
	switch x.Op {
	case token.NOT:
		if a.t.kind != kBool {
			tr.fail(x, "! on a non-boolean")
		}
		if a.prop {
			return ex{s: "¬(" + a.s + ")", t: tBool, prop: true, checks: a.checks}
		}
		return ex{s: "(!" + a.s + ")", t: tBool, checks: a.checks}
	case token.SUB:
		if a.c != nil {
			v := constant.UnaryOp(token.SUB, a.c, 0)
			if a.t.kind == kUntyped {
				return ex{t: tUntyped, c: v}
			}
			if !representable(v, a.t) {
				tr.fail(x, "constant overflow")
			}
			return ex{s: litOf(v, a.t), t: a.t, c: v}
		}
		if a.t.kind == kInt {
			return ex{s: "(i64 (-" + a.s + "))", t: tInt, checks: a.checks}
		}
	case token.ADD:
		if a.t.kind == kInt || a.t.kind == kUint || a.t.kind == kUntyped {
			return a
		}
	}
	tr.fail(x, "unsupported unary operator %s on %s", x.Op, a.t)
	return ex{}
}

func (fc *fctx) asProp(e ex) string {
	if e.prop {
		return e.s
	}
	return e.s + " = true"
}

func (fc *fctx) binary(x *ast.BinaryExpr, sc *scope, hint *gtype) ex {
	tr := fc.tr
	switch x.Op {
	case token.LAND, token.LOR:
		a := fc.expr(x.X, sc, nil)
		b := fc.expr(x.Y, sc, nil)
		if a.t.kind != kBool || b.t.kind != kBool {
			tr.fail(x, "%s on non-booleans", x.Op)
		}
		if len(b.checks) != 0 {
			tr.fail(x, "right operand of %s can panic: short-circuit evaluation of partial operands is not supported", x.Op)
		}
		op := " ∧ "
		if x.Op == token.LOR {
			op = " ∨ "
		}
		return ex{s: "(" + fc.asProp(a) + ")" + op + "(" + fc.asProp(b) + ")", t: tBool, prop: true, checks: a.checks}
	case token.SHL, token.SHR:
		return fc.shift(x, sc, hint)
	case token.EQL, token.NEQ, token.LSS, token.LEQ, token.GTR, token.GEQ:
		a := fc.expr(x.X, sc, nil)
		b := fc.expr(x.Y, sc, nil)
		if fc.imp && (a.t.kind == kNil || b.t.kind == kNil || a.t.kind == kError || b.t.kind == kError) {
			// error values: only comparison with nil
			if x.Op != token.EQL && x.Op != token.NEQ {
				tr.fail(x, "ordering comparison of errors")
			}
			if a.t.kind == kNil && b.t.kind == kError {
				a, b = b, a
			}
			if a.t.kind != kError || b.t.kind != kNil {
				tr.fail(x, "only `err == nil` / `err != nil` comparisons are supported for %s and %s", a.t, b.t)
			}
			op := " = "
			if x.Op == token.NEQ {
				op = " ≠ "
			}
			return ex{s: a.s + op + "none", t: tBool, prop: true, checks: a.checks}
		}
		a, b = fc.unify(x, a, b, nil)
		if a.t.kind == kUntyped { // both constants
			a = fc.mat(x, a, tInt)
			b = fc.mat(x, b, tInt)
		}
		ops := map[token.Token]string{token.EQL: "=", token.NEQ: "≠", token.LSS: "<", token.LEQ: "≤", token.GTR: ">", token.GEQ: "≥"}
		if a.t.kind == kBool {
			if x.Op != token.EQL && x.Op != token.NEQ {
				tr.fail(x, "ordering comparison of booleans")
			}
			as, bs := a.s, b.s
			if a.prop {
				as = "decide (" + as + ")"
			}
			if b.prop {
				bs = "decide (" + bs + ")"
			}
			return ex{s: as + " " + ops[x.Op] + " " + bs, t: tBool, prop: true, checks: joinChecks(a.checks, b.checks)}
		}
		if a.t.kind != kUint && a.t.kind != kInt {
			tr.fail(x, "comparison of %s values is not supported", a.t)
		}
		return ex{s: a.s + " " + ops[x.Op] + " " + b.s, t: tBool, prop: true, checks: joinChecks(a.checks, b.checks)}
	}
	// arithmetic / bitwise
	a := fc.expr(x.X, sc, hint)
	b := fc.expr(x.Y, sc, hint)
	a, b = fc.unify(x, a, b, nil)
	return fc.arith(x, x.Op, a, b)
}

// unify the operand types of a binary operation (untyped constants take the other operand's type)
func (fc *fctx) unify(n ast.Node, a, b ex, _ *gtype) (ex, ex) {
	if a.t.kind == kUntyped && b.t.kind == kUntyped {
		return a, b
	}
	if a.t.kind == kUntyped {
		a = fc.mat(n, a, b.t)
	}
	if b.t.kind == kUntyped {
		b = fc.mat(n, b, a.t)
	}
	if !sameType(a.t, b.t) {
		fc.tr.fail(n, "mismatched operand types %s and %s", a.t, b.t)
	}
	return a, b
}

func (fc *fctx) arith(n ast.Node, op token.Token, a, b ex) ex {
	tr := fc.tr
	t := a.t
	checks := joinChecks(a.checks, b.checks)
	// constant folding (exact, as in Go)
	if a.c != nil && b.c != nil {
		var v constant.Value
		switch op {
		case token.QUO:
			if constant.Sign(b.c) == 0 {
				tr.fail(n, "constant division by zero")
			}
			v = constant.BinaryOp(constant.ToInt(a.c), token.QUO_ASSIGN, constant.ToInt(b.c))
		case token.ADD, token.SUB, token.MUL, token.REM, token.AND, token.OR, token.XOR, token.AND_NOT:
			if op == token.REM && constant.Sign(b.c) == 0 {
				tr.fail(n, "constant division by zero")
			}
			v = constant.BinaryOp(constant.ToInt(a.c), op, constant.ToInt(b.c))
		default:
			tr.fail(n, "unsupported constant operator %s", op)
		}
		if t.kind == kUntyped {
			return ex{t: tUntyped, c: v}
		}
		if !representable(v, t) {
			tr.fail(n, "constant expression overflows %s", t)
		}
		return ex{s: litOf(v, t), t: t, c: v}
	}
	if t.kind != kUint && t.kind != kInt {
		tr.fail(n, "operator %s on %s", op, t)
	}
	w := wrapName(t)
	res := func(s string) ex { return ex{s: s, t: t, checks: checks} }
	switch op {
	case token.ADD:
		return res("(" + w + " (" + a.s + " + " + b.s + "))")
	case token.MUL:
		return res("(" + w + " (" + a.s + " * " + b.s + "))")
	case token.SUB:
		if t.kind == kInt {
			return res("(i64 (" + a.s + " - " + b.s + "))")
		}
		return res("(" + w + " (" + a.s + " + " + pow2(t.bits).String() + " - " + b.s + "))")
	case token.QUO, token.REM:
		if b.c == nil {
			checks = joinChecks(checks, []string{b.s + " ≠ 0"})
		} else if constant.Sign(b.c) == 0 {
			tr.fail(n, "division by the constant zero")
		}
		if t.kind == kInt {
			if op == token.QUO {
				return ex{s: "(i64 (Int.tdiv " + a.s + " " + b.s + "))", t: t, checks: checks}
			}
			return ex{s: "(Int.tmod " + a.s + " " + b.s + ")", t: t, checks: checks}
		}
		o := " / "
		if op == token.REM {
			o = " % "
		}
		return ex{s: "(" + a.s + o + b.s + ")", t: t, checks: checks}
	case token.AND:
		if t.kind == kInt {
			return res("(iand64 " + a.s + " " + b.s + ")")
		}
		return res("(" + a.s + " &&& " + b.s + ")")
	case token.OR:
		if t.kind == kUint {
			return res("(" + a.s + " ||| " + b.s + ")")
		}
		return res("(ior64 " + a.s + " " + b.s + ")")
	case token.XOR:
		if t.kind == kUint {
			return res("(" + a.s + " ^^^ " + b.s + ")")
		}
		return res("(ixor64 " + a.s + " " + b.s + ")")
	}
	tr.fail(n, "unsupported operator %s on %s", op, t)
	return ex{}
}

func (fc *fctx) shift(x *ast.BinaryExpr, sc *scope, hint *gtype) ex {
	tr := fc.tr
	a := fc.expr(x.X, sc, hint)
	c := fc.expr(x.Y, sc, nil)
	if c.t.kind != kUint && c.t.kind != kInt && c.t.kind != kUntyped {
		tr.fail(x, "shift count of type %s", c.t)
	}
	if c.c != nil && constant.Sign(c.c) < 0 {
		tr.fail(x, "negative constant shift count")
	}
	if a.c != nil && c.c != nil {
		s, ok := constant.Uint64Val(constant.ToInt(c.c))
		if !ok || s > 4096 {
			tr.fail(x, "constant shift count too large")
		}
		v := constant.Shift(constant.ToInt(a.c), x.Op, uint(s))
		if a.t.kind == kUntyped {
			return ex{t: tUntyped, c: v}
		}
		if !representable(v, a.t) {
			tr.fail(x, "constant shift overflows %s", a.t)
		}
		return ex{s: litOf(v, a.t), t: a.t, c: v}
	}
	if a.t.kind == kUntyped {
		// Go: an untyped constant left operand of a non-constant shift takes the type it would have
		// if the shift were replaced by the operand alone
		a = fc.mat(x, a, hint)
	}
	if a.t.kind != kUint && a.t.kind != kInt {
		tr.fail(x, "shift of a %s value", a.t)
	}
	checks := joinChecks(a.checks, c.checks)
	if c.c == nil && c.t.kind == kInt {
		checks = joinChecks(checks, []string{"0 ≤ " + c.s})
	}
	cnt := natOf(c)
	if x.Op == token.SHR {
		return ex{s: "(" + a.s + " >>> " + cnt + ")", t: a.t, checks: checks}
	}
	if a.t.kind == kInt {
		return ex{s: "(i64 (" + a.s + " * 2 ^ " + cnt + "))", t: a.t, checks: checks}
	}
	return ex{s: "(" + wrapName(a.t) + " (" + a.s + " <<< " + cnt + "))", t: a.t, checks: checks}
}

// conversion T(e)
func (fc *fctx) convert(n ast.Node, to *gtype, a ex) ex {
	tr := fc.tr
	if to.kind != kUint && to.kind != kInt {
		tr.fail(n, "conversion to %s is not supported", to)
	}
	if a.c != nil {
		if !representable(a.c, to) {
			tr.fail(n, "constant %s overflows %s", a.c.ExactString(), to)
		}
		return ex{s: litOf(a.c, to), t: to, c: a.c}
	}
	if a.t.kind != kUint && a.t.kind != kInt {
		tr.fail(n, "conversion of a %s value", a.t)
	}
	res := func(s string) ex { return ex{s: s, t: to, checks: a.checks} }
	switch {
	case a.t.kind == kUint && to.kind == kUint:
		if to.bits >= a.t.bits {
			return res(a.s)
		}
		return res("(" + wrapName(to) + " " + a.s + ")")
	case a.t.kind == kUint && to.kind == kInt:
		if a.t.bits < 64 {
			return res("(Int.ofNat " + a.s + ")")
		}
		return res("(i64 (Int.ofNat " + a.s + "))")
	case a.t.kind == kInt && to.kind == kUint:
		return res("(Int.toNat (" + a.s + " % " + pow2(to.bits).String() + "))")
	case a.t.kind == kInt && to.kind == kInt:
		return res(a.s)
	}
	tr.fail(n, "unsupported conversion")
	return ex{}
}

func (fc *fctx) call(x *ast.CallExpr, sc *scope, hint *gtype) ex {
	tr := fc.tr
	if x.Ellipsis != token.NoPos {
		tr.fail(x, "variadic call")
	}
	switch f := x.Fun.(type) {
	case *ast.SelectorExpr:
		pkg, ok := f.X.(*ast.Ident)
		if !ok {
			tr.fail(x, "method calls are not supported")
		}
		if t, _ := sc.lookup(pkg.Name); t != nil || pkg.Name == fc.recvName {
			tr.fail(x, "method calls are not supported")
		}
		switch pkg.Name + "." + f.Sel.Name {
		case "bits.LeadingZeros", "bits.LeadingZeros64":
			if len(x.Args) != 1 {
				tr.fail(x, "bad call")
			}
			a := fc.expr(x.Args[0], sc, tU64)
			a = fc.mat(x, a, tU64)
			if !sameType(a.t, tU64) {
				tr.fail(x, "%s.%s needs a 64-bit unsigned argument, got %s", pkg.Name, f.Sel.Name, a.t)
			}
			return ex{s: "(Int.ofNat (lz64 " + a.s + "))", t: tInt, checks: a.checks}
		case "unsafe.Sizeof":
			if len(x.Args) != 1 {
				tr.fail(x, "bad call")
			}
			a := fc.expr(x.Args[0], sc, nil)
			if a.t.kind == kUntyped || (a.t.kind != kUint && a.t.kind != kInt) {
				tr.fail(x, "unsafe.Sizeof of a %s value", a.t)
			}
			v := constant.MakeInt64(int64(a.t.bits / 8))
			return ex{s: litOf(v, tU64), t: tU64, c: v}
		}
		tr.fail(x, "call of %s.%s is not supported", pkg.Name, f.Sel.Name)
	case *ast.Ident:
		if t, _ := sc.lookup(f.Name); t != nil {
			tr.fail(x, "call of a local function value")
		}
		// translated function?
		if _, ok := tr.specs["."+f.Name]; ok {
			callee := tr.translateFunc("." + f.Name)
			if callee.partial {
				tr.fail(x, "call of %s, which can panic or loop, inside an expression is not supported", f.Name)
			}
			if len(x.Args) != len(callee.params) {
				tr.fail(x, "wrong number of arguments")
			}
			var sb strings.Builder
			sb.WriteString("(" + callee.spec.lean)
			var checks []string
			for _, g := range callee.globals {
				fc.globals[g.name] = g.t
				sb.WriteString(" " + leanIdent(g.name))
			}
			for i, arg := range x.Args {
				a := fc.expr(arg, sc, callee.params[i].t)
				a = fc.mat(arg, a, callee.params[i].t)
				if !sameType(a.t, callee.params[i].t) {
					tr.fail(arg, "argument %d of %s has type %s, want %s", i+1, f.Name, a.t, callee.params[i].t)
				}
				checks = joinChecks(checks, a.checks)
				sb.WriteString(" " + fc.atom(a))
			}
			sb.WriteString(")")
			return ex{s: sb.String(), t: callee.result, checks: checks}
		}
		// conversion?
		switch f.Name {
		case "len", "cap", "make", "new", "append", "copy", "panic", "min", "max", "print", "println", "recover":
			tr.fail(x, "builtin %s is not supported here", f.Name)
		}
		if ts, _ := tr.findTypeSpec(f.Name); ts != nil || isBasicTypeName(f.Name) {
			if len(x.Args) != 1 {
				tr.fail(x, "bad conversion")
			}
			to := tr.resolveType(fc.file, f)
			a := fc.expr(x.Args[0], sc, to)
			return fc.convert(x, to, a)
		}
		tr.fail(x, "call of %s: not in the list of translated functions", f.Name)
	}
	tr.fail(x, "unsupported call")
	return ex{}
}

func isBasicTypeName(n string) bool {
	switch n {
	case "byte", "uint8", "uint16", "uint", "uint64", "uintptr", "int", "int64":
		return true
	}
	return false
}

func (fc *fctx) atom(e ex) string {
	s := e.s
	if e.prop {
		return "(decide (" + s + "))"
	}
	if strings.HasPrefix(s, "(") || !strings.ContainsAny(s, " ") {
		return s
	}
	return "(" + s + ")"
}

// needsBoundsCheck: is `idx` possibly outside [0, n)?
func idxChecks(idx ex, n int64) ([]string, bool) {
	if idx.c != nil {
		b := bigOf(idx.c)
		if b.Sign() < 0 || b.Cmp(big.NewInt(n)) >= 0 {
			return nil, false
		}
		return nil, true
	}
	if idx.t.kind == kUint && idx.t.bits < 63 && pow2(idx.t.bits).Cmp(big.NewInt(n)) <= 0 {
		return nil, true
	}
	if idx.t.kind == kInt {
		return []string{"0 ≤ " + idx.s, fmt.Sprintf("%s < %d", idx.s, n)}, true
	}
	return []string{fmt.Sprintf("%s < %d", idx.s, n)}, true
}

func (fc *fctx) indexOperand(e ast.Expr, sc *scope) ex {
	idx := fc.expr(e, sc, tInt)
	if idx.t.kind == kUntyped {
		idx = fc.mat(e, idx, tInt)
	}
	if idx.t.kind != kUint && idx.t.kind != kInt {
		fc.tr.fail(e, "index of type %s", idx.t)
	}
	return idx
}

func (fc *fctx) index(x *ast.IndexExpr, sc *scope) ex {
	tr := fc.tr
	// static tables of galois.go
	if id, ok := x.X.(*ast.Ident); ok {
		if t, _ := sc.lookup(id.Name); t == nil {
			if ti, ok := tr.tables[id.Name]; ok {
				if len(ti.dims) != 1 {
					tr.fail(x, "table %s needs %d indices", id.Name, len(ti.dims))
				}
				idx := fc.indexOperand(x.Index, sc)
				chk, ok := idxChecks(idx, int64(ti.dims[0]))
				if !ok {
					tr.fail(x, "constant index out of range")
				}
				return fc.tableRead(x, id.Name, id.Name, ti, idx, chk)
			}
		}
	}
	if ix, ok := x.X.(*ast.IndexExpr); ok {
		if id, ok := ix.X.(*ast.Ident); ok {
			if t, _ := sc.lookup(id.Name); t == nil {
				if ti, ok := tr.tables[id.Name]; ok {
					if len(ti.dims) != 2 {
						tr.fail(x, "table %s needs %d indices", id.Name, len(ti.dims))
					}
					i0 := fc.indexOperand(ix.Index, sc)
					c0, ok := idxChecks(i0, int64(ti.dims[0]))
					if !ok {
						tr.fail(x, "constant index out of range")
					}
					i1 := fc.indexOperand(x.Index, sc)
					c1, ok := idxChecks(i1, int64(ti.dims[1]))
					if !ok {
						tr.fail(x, "constant index out of range")
					}
					row := id.Name + "Rows[" + natOf(i0) + "]!"
					r := fc.tableRead(x, id.Name, row, tableInfo{dims: ti.dims[1:], bytesPer: ti.bytesPer}, i1, c1)
					r.checks = joinChecks(joinChecks(i0.checks, c0), r.checks)
					return r
				}
			}
		}
	}
	// arrays (parameters, receiver fields, run-time package arrays)
	a := fc.expr(x.X, sc, nil)
	if a.t == nil || a.t.kind != kArray {
		tr.fail(x, "indexing a value that is not a fixed-size array")
	}
	idx := fc.indexOperand(x.Index, sc)
	chk, ok := idxChecks(idx, a.t.n)
	if !ok {
		tr.fail(x, "constant index out of range")
	}
	s := a.s + "[" + natOf(idx) + "]!"
	if a.t.elem.kind != kArray {
		s = "(" + s + ")"
	}
	return ex{s: s, t: a.t.elem, checks: joinChecks(joinChecks(a.checks, idx.checks), chk)}
}

func (fc *fctx) tableRead(n ast.Node, name, row string, ti tableInfo, idx ex, chk []string) ex {
	t := tU8
	if ti.bytesPer == 8 {
		t = tU64
	} else if ti.bytesPer != 1 {
		fc.tr.fail(n, "table %s: unsupported entry width", name)
	}
	mask := new(big.Int).Sub(pow2(8*ti.bytesPer), big.NewInt(1))
	s := fmt.Sprintf("((%s >>> (%d * %s)) &&& %s)", row, 8*ti.bytesPer, natOf(idx), mask.String())
	return ex{s: s, t: t, checks: joinChecks(idx.checks, chk)}
}

// ---------- statements ----------

func (fc *fctx) none() string {
	fc.usedNone = true
	return "none"
}

func (fc *fctx) ret(s string) string {
	if fc.partial {
		return "some " + s
	}
	return s
}

func ind(n int) string { return strings.Repeat("  ", n) }

// guarded prefixes `body` by the run-time checks: `if ¬(checks) then none else <body>`
func (fc *fctx) guarded(checks []string, d int, body func(d int) string) string {
	return fc.prefixGuard(checks, d) + body(d)
}

func (fc *fctx) prefixGuard(checks []string, d int) string {
	if len(checks) == 0 {
		return ""
	}
	fc.usedNone = true
	if !fc.partial {
		return "" // will be re-translated as Option-valued
	}
	return ind(d) + "if ¬(" + strings.Join(checks, " ∧ ") + ") then none else\n"
}

func isPanic(s ast.Stmt) bool {
	es, ok := s.(*ast.ExprStmt)
	if !ok {
		return false
	}
	c, ok := es.X.(*ast.CallExpr)
	if !ok {
		return false
	}
	id, ok := c.Fun.(*ast.Ident)
	return ok && id.Name == "panic"
}

func terminates(stmts []ast.Stmt) bool {
	if len(stmts) == 0 {
		return false
	}
	switch s := stmts[len(stmts)-1].(type) {
	case *ast.ReturnStmt:
		return true
	case *ast.ExprStmt:
		return isPanic(s)
	case *ast.BlockStmt:
		return terminates(s.List)
	case *ast.IfStmt:
		if s.Else == nil {
			return false
		}
		var el []ast.Stmt
		switch e := s.Else.(type) {
		case *ast.BlockStmt:
			el = e.List
		case *ast.IfStmt:
			el = []ast.Stmt{e}
		}
		return terminates(s.Body.List) && terminates(el)
	}
	return false
}

// assign a new value to a variable; records modifications of variables of enclosing blocks
func (fc *fctx) setVar(n ast.Node, name string, sc *scope) *gtype {
	t, owner := sc.lookup(name)
	if t == nil {
		fc.tr.fail(n, "assignment to unknown variable %s", name)
	}
	if t.kind == kArray {
		fc.tr.fail(n, "assignment to array variable %s", name)
	}
	// every block scope between sc and the owner records the modification
	for c := sc; c != nil && c != owner; c = c.parent {
		if c.block && c.mod != nil {
			dup := false
			for _, m := range *c.mod {
				if m == name {
					dup = true
				}
			}
			if !dup {
				*c.mod = append(*c.mod, name)
			}
		}
	}
	return t
}

func tuplePat(vars []string) string {
	names := make([]string, len(vars))
	for i, v := range vars {
		names[i] = leanIdent(v)
	}
	if len(names) == 1 {
		return names[0]
	}
	return "(" + strings.Join(names, ", ") + ")"
}

func tupleType(vars []string, sc *scope) string {
	parts := make([]string, len(vars))
	for i, v := range vars {
		t, _ := sc.lookup(v)
		parts[i] = t.lean()
	}
	return strings.Join(parts, " × ")
}

// block translates stmts followed by `tail` (what happens when control falls off the end)
func (fc *fctx) block(stmts []ast.Stmt, sc *scope, d int, tail func(sc *scope, d int) string) string {
	tr := fc.tr
	if len(stmts) == 0 {
		return tail(sc, d)
	}
	rest := stmts[1:]
	switch s := stmts[0].(type) {
	case *ast.EmptyStmt:
		return fc.block(rest, sc, d, tail)
	case *ast.ReturnStmt:
		if len(rest) != 0 {
			tr.fail(rest[0], "unreachable code after return")
		}
		return fc.returnStmt(s, sc, d)
	case *ast.ExprStmt:
		if isPanic(s) {
			if len(rest) != 0 {
				tr.fail(rest[0], "unreachable code after panic")
			}
			return ind(d) + fc.none() + "\n"
		}
		tr.fail(s, "expression statements other than panic(..) are not supported")
	case *ast.DeclStmt:
		gd, ok := s.Decl.(*ast.GenDecl)
		if !ok || (gd.Tok != token.VAR && gd.Tok != token.CONST) {
			tr.fail(s, "unsupported declaration")
		}
		var sb strings.Builder
		for _, sp := range gd.Specs {
			vs := sp.(*ast.ValueSpec)
			if len(vs.Values) != len(vs.Names) {
				tr.fail(vs, "declaration without one initialiser per name is not supported")
			}
			for i, nm := range vs.Names {
				var want *gtype
				if vs.Type != nil {
					want = tr.resolveType(fc.file, vs.Type)
				}
				e := fc.expr(vs.Values[i], sc, want)
				if gd.Tok == token.CONST && e.c == nil {
					tr.fail(vs, "constant declaration with a non-constant value")
				}
				sb.WriteString(fc.bind(vs, nm.Name, e, want, sc, d, true))
			}
		}
		return sb.String() + fc.block(rest, sc, d, tail)
	case *ast.AssignStmt:
		return fc.assign(s, sc, d) + fc.block(rest, sc, d, tail)
	case *ast.IncDecStmt:
		id, ok := s.X.(*ast.Ident)
		if !ok {
			tr.fail(s, "unsupported ++/--")
		}
		t := fc.setVar(s, id.Name, sc)
		op := token.ADD
		if s.Tok == token.DEC {
			op = token.SUB
		}
		one := ex{t: tUntyped, c: constant.MakeInt64(1)}
		a, b := fc.unify(s, ex{s: leanIdent(id.Name), t: t}, one, nil)
		v := fc.arith(s, op, a, b)
		return fc.bind(s, id.Name, v, t, sc, d, false) + fc.block(rest, sc, d, tail)
	case *ast.BlockStmt:
		tr.fail(s, "bare blocks are not supported")
	case *ast.IfStmt:
		return fc.ifStmt(s, rest, sc, d, tail)
	case *ast.ForStmt:
		return fc.forStmt(s, rest, sc, d, tail)
	}
	tr.fail(stmts[0], "unsupported statement (%T)", stmts[0])
	return ""
}

// bind emits `let name : T := value` (guarded by the value's run-time checks) and declares/updates name
func (fc *fctx) bind(n ast.Node, name string, e ex, want *gtype, sc *scope, d int, declare bool) string {
	tr := fc.tr
	if name == "_" {
		tr.fail(n, "blank identifier")
	}
	if want == nil {
		want = e.t
		if want.kind == kUntyped {
			want = tInt // default type of an untyped integer constant
		}
	}
	e = fc.mat(n, e, want)
	if !sameType(e.t, want) {
		tr.fail(n, "cannot assign a %s value to %s of type %s", e.t, name, want)
	}
	if want.kind == kTuple || want.kind == kArray {
		tr.fail(n, "variables of type %s are not supported", want)
	}
	val := e.s
	if e.prop {
		val = "decide (" + val + ")"
	}
	line := ind(d) + "let " + leanIdent(name) + " : " + want.lean() + " := " + val + "\n"
	if declare {
		sc.declare(name, want)
	}
	line = fc.prefixGuard(e.checks, d) + line
	return line
}

func (fc *fctx) assign(s *ast.AssignStmt, sc *scope, d int) string {
	tr := fc.tr
	if len(s.Lhs) != 1 || len(s.Rhs) != 1 {
		tr.fail(s, "multiple assignment is not supported")
	}
	id, ok := s.Lhs[0].(*ast.Ident)
	if !ok {
		tr.fail(s, "assignment to something that is not a local variable")
	}
	switch s.Tok {
	case token.DEFINE:
		if _, own := sc.vars[id.Name]; own {
			tr.fail(s, "redeclaration of %s", id.Name)
		}
		e := fc.expr(s.Rhs[0], sc, nil)
		return fc.bind(s, id.Name, e, nil, sc, d, true)
	case token.ASSIGN:
		t := fc.setVar(s, id.Name, sc)
		e := fc.expr(s.Rhs[0], sc, t)
		return fc.bind(s, id.Name, e, t, sc, d, false)
	}
	ops := map[token.Token]token.Token{token.ADD_ASSIGN: token.ADD, token.SUB_ASSIGN: token.SUB, token.MUL_ASSIGN: token.MUL,
		token.QUO_ASSIGN: token.QUO, token.REM_ASSIGN: token.REM, token.AND_ASSIGN: token.AND, token.OR_ASSIGN: token.OR,
		token.XOR_ASSIGN: token.XOR, token.SHL_ASSIGN: token.SHL, token.SHR_ASSIGN: token.SHR}
	op, ok := ops[s.Tok]
	if !ok {
		tr.fail(s, "unsupported assignment operator %s", s.Tok)
	}
	t := fc.setVar(s, id.Name, sc)
	var v ex
	if op == token.SHL || op == token.SHR {
		v = fc.shift(&ast.BinaryExpr{X: id, OpPos: s.TokPos, Op: op, Y: s.Rhs[0]}, sc, t)
	} else {
		a := ex{s: leanIdent(id.Name), t: t}
		b := fc.expr(s.Rhs[0], sc, t)
		a, b = fc.unify(s, a, b, nil)
		v = fc.arith(s, op, a, b)
	}
	return fc.bind(s, id.Name, v, t, sc, d, false)
}

func (fc *fctx) returnStmt(s *ast.ReturnStmt, sc *scope, d int) string {
	tr := fc.tr
	res := fc.info.result
	var want []*gtype
	if res.kind == kTuple {
		want = res.tup
	} else {
		want = []*gtype{res}
	}
	if len(s.Results) != len(want) {
		tr.fail(s, "return with %d values, want %d (named results are not supported)", len(s.Results), len(want))
	}
	var checks []string
	parts := make([]string, len(want))
	for i, r := range s.Results {
		e := fc.expr(r, sc, want[i])
		e = fc.mat(r, e, want[i])
		if !sameType(e.t, want[i]) {
			tr.fail(r, "return value of type %s, want %s", e.t, want[i])
		}
		checks = joinChecks(checks, e.checks)
		parts[i] = e.s
		if e.prop {
			parts[i] = "decide (" + e.s + ")"
		}
	}
	val := parts[0]
	if len(parts) > 1 {
		val = "(" + strings.Join(parts, ", ") + ")"
	} else if fc.partial && strings.ContainsAny(val, " ") && !strings.HasPrefix(val, "(") {
		val = "(" + val + ")"
	}
	return fc.guarded(checks, d, func(d int) string { return ind(d) + fc.ret(val) + "\n" })
}

func elseStmts(s *ast.IfStmt) []ast.Stmt {
	switch e := s.Else.(type) {
	case *ast.BlockStmt:
		return e.List
	case *ast.IfStmt:
		return []ast.Stmt{e}
	}
	return nil
}

func (fc *fctx) ifStmt(s *ast.IfStmt, rest []ast.Stmt, sc *scope, d int, tail func(*scope, int) string) string {
	tr := fc.tr
	if s.Init != nil {
		tr.fail(s, "if with an init statement is not supported")
	}
	c := fc.expr(s.Cond, sc, nil)
	if c.t.kind != kBool {
		tr.fail(s.Cond, "condition is not boolean")
	}
	cond := fc.asProp(c)
	noTail := func(sc *scope, d int) string {
		tr.fail(s, "internal: fell off a terminating block")
		return ""
	}
	if terminates(s.Body.List) {
		if s.Else != nil {
			if !terminates(elseStmts(s)) {
				tr.fail(s, "if/else where only the first branch returns is not supported")
			}
			if len(rest) != 0 {
				tr.fail(rest[0], "unreachable code")
			}
			return fc.guarded(c.checks, d, func(d int) string {
				return ind(d) + "if " + cond + " then\n" + fc.block(s.Body.List, newScope(sc), d+1, noTail) +
					ind(d) + "else\n" + fc.block(elseStmts(s), newScope(sc), d+1, noTail)
			})
		}
		return fc.guarded(c.checks, d, func(d int) string {
			return ind(d) + "if " + cond + " then\n" + fc.block(s.Body.List, newScope(sc), d+1, noTail) +
				ind(d) + "else\n" + fc.block(rest, sc, d, tail)
		})
	}
	// fall-through if: the branches may only update variables of the enclosing scopes
	if s.Else != nil && terminates(elseStmts(s)) {
		tr.fail(s, "if/else where only the else branch returns is not supported")
	}
	var mod []string
	branch := func(stmts []ast.Stmt, d int) string {
		bs := newScope(sc)
		bs.block, bs.mod = true, &mod
		return fc.block(stmts, bs, d, func(bs *scope, d int) string { return ind(d) + "__TUPLE__\n" })
	}
	savedNone := fc.usedNone
	fc.usedNone = false
	thenS := branch(s.Body.List, d+2)
	elseS := ind(d+2) + "__TUPLE__\n"
	if s.Else != nil {
		elseS = branch(elseStmts(s), d+2)
	}
	if fc.usedNone {
		tr.fail(s, "a conditional block that falls through may not contain operations that can panic")
	}
	fc.usedNone = savedNone
	if len(mod) == 0 {
		tr.fail(s, "conditional block without effect")
	}
	sort.Strings(mod)
	// the modifications also count for the enclosing block scopes
	for _, m := range mod {
		fc.setVar(s, m, sc)
	}
	pat := tuplePat(mod)
	thenS = strings.ReplaceAll(thenS, "__TUPLE__", pat)
	elseS = strings.ReplaceAll(elseS, "__TUPLE__", pat)
	return fc.guarded(c.checks, d, func(d0 int) string {
		// (indentation of the branches is relative to d; when guarded the extra level is harmless)
		return ind(d0) + "let " + pat + " : " + tupleType(mod, sc) + " :=\n" +
			ind(d0+1) + "if " + cond + " then\n" + thenS + ind(d0+1) + "else\n" + elseS
	}) + fc.block(rest, sc, d, tail)
}

// referenced identifiers of a list of nodes
func identsOf(nodes ...ast.Node) map[string]bool {
	res := map[string]bool{}
	for _, n := range nodes {
		if n == nil {
			continue
		}
		ast.Inspect(n, func(m ast.Node) bool {
			if id, ok := m.(*ast.Ident); ok {
				res[id.Name] = true
			}
			return true
		})
	}
	return res
}

func (fc *fctx) forStmt(s *ast.ForStmt, rest []ast.Stmt, sc *scope, d int, tail func(*scope, int) string) string {
	tr := fc.tr
	if s.Init != nil || s.Post != nil || s.Cond == nil {
		tr.fail(s, "only `for cond { .. }` loops are supported")
	}
	if !fc.partial {
		fc.usedNone = true // a loop may diverge: the function is Option-valued
		return fc.block(rest, sc, d, tail)
	}
	fc.usedNone = true
	fc.nloops++
	name := fmt.Sprintf("%s_loop%d", fc.info.spec.lean, fc.nloops)
	// pass 1: which outer variables does the body modify?
	var mod []string
	mkBody := func(call string) string {
		bs := newScope(sc)
		bs.block, bs.mod = true, &mod
		return fc.block(s.Body.List, bs, 2, func(bs *scope, d int) string { return ind(d) + call + "\n" })
	}
	ast.Inspect(s.Body, func(n ast.Node) bool {
		switch n.(type) {
		case *ast.ReturnStmt, *ast.BranchStmt, *ast.ForStmt, *ast.RangeStmt:
			tr.fail(n, "return/break/continue/nested loops inside a loop are not supported")
		}
		return true
	})
	nl := fc.nloops
	mkBody("X")
	fc.nloops = nl
	if len(mod) == 0 {
		tr.fail(s, "loop body modifies no variable")
	}
	for _, m := range mod {
		fc.setVar(s, m, sc) // the modifications also count for the enclosing block scopes
	}
	isState := map[string]bool{}
	for _, m := range mod {
		isState[m] = true
	}
	used := identsOf(s.Cond, s.Body)
	var ro, st []paramInfo
	for _, v := range sc.visible() {
		if !used[v.name] {
			continue
		}
		if isState[v.name] {
			st = append(st, v)
		} else {
			ro = append(ro, v)
		}
	}
	if len(st) != len(mod) {
		tr.fail(s, "internal: loop state mismatch")
	}
	var globals []string
	for g := range fc.globals {
		globals = append(globals, g)
	}
	sort.Strings(globals)
	stNames := make([]string, len(st))
	for i, v := range st {
		stNames[i] = v.name
	}
	var sig, args strings.Builder
	for _, g := range globals {
		fmt.Fprintf(&sig, " (%s : %s)", leanIdent(g), fc.globals[g].lean())
		args.WriteString(" " + leanIdent(g))
	}
	for _, v := range append(append([]paramInfo{}, ro...), st...) {
		fmt.Fprintf(&sig, " (%s : %s)", leanIdent(v.name), v.t.lean())
		args.WriteString(" " + leanIdent(v.name))
	}
	c := fc.expr(s.Cond, sc, nil)
	if c.t.kind != kBool {
		tr.fail(s.Cond, "loop condition is not boolean")
	}
	if len(c.checks) != 0 {
		tr.fail(s.Cond, "loop condition that can panic is not supported")
	}
	nGlob := len(fc.globals)
	body := mkBody(name + args.String())
	if len(fc.globals) != nGlob {
		tr.fail(s, "internal: run-time table first used inside a loop body")
	}
	var ab strings.Builder
	fmt.Fprintf(&ab, "/-- loop %d of `%s`: `for cond { body }`; the result is the state at exit (`none`: panic or divergence) -/\n", fc.nloops, fc.info.spec.name)
	stT := tupleType(stNames, sc)
	if strings.ContainsAny(stT, " ") {
		stT = "(" + stT + ")"
	}
	fmt.Fprintf(&ab, "def %s%s : Option %s :=\n", name, sig.String(), stT)
	fmt.Fprintf(&ab, "  if %s then\n%s  else some %s\npartial_fixpoint\n\n", fc.asProp(c), body, tuplePat(stNames))
	fc.aux = append(fc.aux, ab.String())
	return ind(d) + "match " + name + args.String() + " with\n" + ind(d) + "| none => none\n" +
		ind(d) + "| some " + tuplePat(stNames) + " =>\n" + fc.block(rest, sc, d+1, tail)
}

// ---------- functions ----------

func (tr *translator) findFunc(sp fspec) *ast.FuncDecl {
	var res *ast.FuncDecl
	f := tr.files[sp.file]
	if f == nil {
		tr.fail(nil, "file %s is not loaded", sp.file)
	}
	for _, d := range f.Decls {
		fd, ok := d.(*ast.FuncDecl)
		if !ok || fd.Name.Name != sp.name {
			continue
		}
		recv := ""
		if fd.Recv != nil && len(fd.Recv.List) == 1 {
			t := fd.Recv.List[0].Type
			if st, ok := t.(*ast.StarExpr); ok {
				t = st.X
			}
			if id, ok := t.(*ast.Ident); ok {
				recv = id.Name
			}
		}
		if recv != sp.recv {
			continue
		}
		if res != nil {
			tr.fail(fd, "function %s declared twice", sp.name)
		}
		res = fd
	}
	if res == nil {
		tr.fail(nil, "function %s (receiver %q) not found in %s", sp.name, sp.recv, sp.file)
	}
	return res
}

func (tr *translator) translateFunc(key string) *fnInfo {
	if fi, ok := tr.funcs[key]; ok {
		return fi
	}
	if tr.active[key] {
		tr.fail(nil, "recursive function %s", key)
	}
	tr.active[key] = true
	defer delete(tr.active, key)
	sp := tr.specs[key]
	if sp.imp {
		return tr.translateImp(key)
	}
	fd := tr.findFunc(sp)
	if fd.Body == nil {
		tr.fail(fd, "function %s has no body", sp.name)
	}
	if fd.Type.TypeParams != nil {
		tr.fail(fd, "generic function")
	}
	info := &fnInfo{spec: sp}
	recvName := ""
	recvFlds := map[string]*gtype{}
	if fd.Recv != nil {
		r := fd.Recv.List[0]
		if len(r.Names) == 1 {
			recvName = r.Names[0].Name
		}
		ts, tfile := tr.findTypeSpec(sp.recv)
		if ts == nil {
			tr.fail(fd, "receiver type %s not found", sp.recv)
		}
		st, ok := ts.Type.(*ast.StructType)
		if !ok {
			tr.fail(fd, "receiver type %s is not a struct", sp.recv)
		}
		for _, fl := range st.Fields.List {
			if len(fl.Names) == 0 {
				tr.fail(fl, "embedded fields are not supported")
			}
			t := tr.resolveType(tfile, fl.Type)
			if hasSlice(t) {
				tr.fail(fl, "slice / error types are not supported in scalar mode")
			}
			for _, n := range fl.Names {
				recvFlds[n.Name] = t
				info.params = append(info.params, paramInfo{n.Name, t})
			}
		}
	}
	for _, p := range fd.Type.Params.List {
		if len(p.Names) == 0 {
			tr.fail(p, "unnamed parameter")
		}
		t := tr.resolveType(sp.file, p.Type)
		if hasSlice(t) {
			tr.fail(p, "slice / error types are not supported in scalar mode")
		}
		for _, n := range p.Names {
			if n.Name == "_" {
				tr.fail(p, "blank parameter")
			}
			if _, clash := recvFlds[n.Name]; clash {
				tr.fail(p, "parameter %s has the name of a receiver field", n.Name)
			}
			info.params = append(info.params, paramInfo{n.Name, t})
		}
	}
	if fd.Type.Results == nil || len(fd.Type.Results.List) == 0 {
		tr.fail(fd, "function without result")
	}
	var rts []*gtype
	for _, r := range fd.Type.Results.List {
		if len(r.Names) != 0 {
			tr.fail(r, "named results are not supported")
		}
		rt := tr.resolveType(sp.file, r.Type)
		if hasSlice(rt) {
			tr.fail(r, "slice / error types are not supported in scalar mode")
		}
		rts = append(rts, rt)
	}
	if len(rts) == 1 {
		info.result = rts[0]
	} else {
		info.result = &gtype{kind: kTuple, tup: rts}
	}
	for _, t := range rts {
		if t.kind == kArray {
			tr.fail(fd, "array results are not supported")
		}
	}

	run := func(partial bool) (*fctx, string) {
		fc := &fctx{tr: tr, file: sp.file, info: info, recvName: recvName, recvFlds: recvFlds, partial: partial,
			globals: map[string]*gtype{}}
		sc := newScope(nil)
		for _, p := range info.params {
			if _, isFld := recvFlds[p.name]; isFld {
				continue // fields are reached through the receiver only
			}
			sc.declare(p.name, p.t)
		}
		body := fc.block(fd.Body.List, sc, 1, func(sc *scope, d int) string {
			tr.fail(fd, "missing return at the end of %s", sp.name)
			return ""
		})
		return fc, body
	}
	fc, body := run(false)
	if fc.usedNone {
		fc, body = run(true)
		info.partial = true
	}
	var gl []string
	for g := range fc.globals {
		gl = append(gl, g)
	}
	sort.Strings(gl)
	for _, g := range gl {
		info.globals = append(info.globals, paramInfo{g, fc.globals[g]})
	}
	var sb strings.Builder
	for _, a := range fc.aux {
		sb.WriteString(a)
	}
	recvTxt := ""
	if sp.recv != "" {
		recvTxt = "(" + sp.recv + ") "
	}
	fmt.Fprintf(&sb, "/-- Go: `func %s%s` in %s", recvTxt, sp.name, sp.file)
	if len(info.globals) != 0 {
		sb.WriteString("; run-time tables as parameters:")
		for _, g := range info.globals {
			sb.WriteString(" " + g.name)
		}
	}
	if info.partial {
		sb.WriteString("; `none` = panic / no normal return")
	}
	sb.WriteString(" -/\n")
	fmt.Fprintf(&sb, "def %s", sp.lean)
	for _, p := range append(append([]paramInfo{}, info.globals...), info.params...) {
		fmt.Fprintf(&sb, " (%s : %s)", leanIdent(p.name), p.t.lean())
	}
	rt := info.result.lean()
	if info.partial {
		if strings.ContainsAny(rt, " ") {
			rt = "(" + rt + ")"
		}
		rt = "Option " + rt
	}
	fmt.Fprintf(&sb, " : %s :=\n%s\n", rt, body)
	info.text = sb.String()
	tr.funcs[key] = info
	tr.out = append(tr.out, key)
	return info
}

const funcsPrelude = `import RSV.Gen.Tables
/-! GENERATED by /verif/tools/extract (Go-subset -> Lean translator) from the Go sources under /repo — do not edit.

Conventions: unsigned Go integers are ` + "`Nat`" + `s below 2^w and ` + "`int`" + ` is an ` + "`Int`" + ` in [-2^63, 2^63); ` + "`u8/u16/u64/i64`" + `
are Go's wrap-arounds; ` + "`lz64`" + ` is bits.LeadingZeros on 64-bit words; ` + "`none`" + ` = panic (or no normal return). -/
namespace RSV.Gen

/-- wrap to uint8 -/
def u8 (x : Nat) : Nat := x % 256
/-- wrap to uint16 -/
def u16 (x : Nat) : Nat := x % 65536
/-- wrap to uint64 (and uint, uintptr: 64-bit targets) -/
def u64 (x : Nat) : Nat := x % 18446744073709551616
/-- wrap to int64 (and int: 64-bit targets), two's complement -/
def i64 (x : Int) : Int := (x + 9223372036854775808) % 18446744073709551616 - 9223372036854775808
/-- x & y on int64: bitwise and of the two's complement representations -/
def iand64 (x y : Int) : Int :=
  i64 (Int.ofNat (Int.toNat (x % 18446744073709551616) &&& Int.toNat (y % 18446744073709551616)))
/-- x | y on int64 -/
def ior64 (x y : Int) : Int :=
  i64 (Int.ofNat (Int.toNat (x % 18446744073709551616) ||| Int.toNat (y % 18446744073709551616)))
/-- x ^ y on int64 -/
def ixor64 (x y : Int) : Int :=
  i64 (Int.ofNat (Int.toNat (x % 18446744073709551616) ^^^ Int.toNat (y % 18446744073709551616)))
/-- bits.LeadingZeros / LeadingZeros64 of a 64-bit word -/
def lz64 (x : Nat) : Nat := if x = 0 then 64 else 63 - Nat.log2 x

`

// genFuncs translates the configured functions and returns the texts of the generated files by group
// ("" = Funcs.lean, "MatrixGo" = MatrixGo.lean)
func genFuncs(fset *token.FileSet, files map[string]*ast.File, order []string, tables map[string]tableInfo, list []fspec) map[string]string {
	tr := &translator{fset: fset, files: files, order: order, tables: tables, funcs: map[string]*fnInfo{},
		specs: map[string]fspec{}, active: map[string]bool{}}
	seen := map[string]bool{}
	for _, sp := range list {
		key := sp.recv + "." + sp.name
		if _, dup := tr.specs[key]; dup {
			tr.fail(nil, "function %s listed twice", key)
		}
		if seen[sp.lean] {
			tr.fail(nil, "Lean name %s used twice", sp.lean)
		}
		seen[sp.lean] = true
		tr.specs[key] = sp
	}
	skippedFuncs = nil
	for _, sp := range list {
		key := sp.recv + "." + sp.name
		if !softFatal {
			tr.translateFunc(key)
			continue
		}
		// soft mode (ApiGo.lean): a function that is rejected is left out of the file (and reported, exit status 2);
		// the functions that do not depend on it are still generated
		func() {
			defer func() {
				if r := recover(); r != nil {
					fe, ok := r.(fatalErr)
					if !ok {
						panic(r)
					}
					skippedFuncs = append(skippedFuncs, [2]string{sp.lean, string(fe)})
				}
			}()
			tr.translateFunc(key)
		}()
	}
	res := map[string]string{}
	preludes := map[string]string{"": funcsPrelude, "MatrixGo": matrixPrelude, "ApiGo": apiPrelude}
	texts := map[string]*strings.Builder{}
	for _, key := range tr.out {
		g := tr.specs[key].group
		if texts[g] == nil {
			pre, ok := preludes[g]
			if !ok {
				tr.fail(nil, "unknown output group %q", g)
			}
			texts[g] = &strings.Builder{}
			texts[g].WriteString(pre)
		}
		texts[g].WriteString(tr.funcs[key].text)
	}
	if softFatal && texts["ApiGo"] == nil {
		texts["ApiGo"] = &strings.Builder{}
		texts["ApiGo"].WriteString(apiPrelude)
	}
	for _, sk := range skippedFuncs {
		fmt.Fprintf(texts["ApiGo"], "-- NOT TRANSLATED: %s\n\n", sk[0])
	}
	for g, b := range texts {
		b.WriteString("end RSV.Gen\n")
		res[g] = b.String()
	}
	if t, ok := res["ApiGo"]; ok {
		// ApiGo.lean imports nothing: its own copy of the int64 wrap, none of the other helpers of Funcs.lean / MatrixGo.lean
		body := strings.ReplaceAll(strings.ReplaceAll(strings.TrimPrefix(t, apiPrelude), "(i64 (", "(shI64 ("), "(iand64 ", "(shIand64 ")
		if m := foreignHelper.FindStringSubmatch(body); m != nil {
			tr.fail(nil, "ApiGo.lean (which imports nothing) would need the helper %s of Funcs.lean / MatrixGo.lean", m[2])
		}
		res["ApiGo"] = apiPrelude + body
	}
	return res
}

// skippedFuncs: soft mode, the functions left out of the last genFuncs run (Lean name, reason)
var skippedFuncs [][2]string

var foreignHelper = regexp.MustCompile(`(^|[^A-Za-z0-9_'.])(u8|u16|u64|i64|iand64|ior64|ixor64|lz64|gidx|gset|gset2)($|[^A-Za-z0-9_'])`)
