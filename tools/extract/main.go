// extract: Tie A of the verification framework.
//
// Reads the *current* Go sources under the repository directory (go/parser + go/ast,
// stdlib only) and regenerates Lean source files with the static GF(2^8) tables and the
// named constants / literal arrays the Lean models take as parameters.  The Lean kernel
// then re-checks every table theorem against what the code says now.
//
// usage: extract <repo-dir> <out-dir>
package main

import (
	"fmt"
	"go/ast"
	"go/constant"
	"go/parser"
	"go/token"
	"os"
	"path/filepath"
	"sort"
	"strings"
)

type pkgInfo struct {
	fset   *token.FileSet
	files  map[string]*ast.File
	consts map[string]constant.Value // per file-set, first definition wins inside a file
}

// softFatal: while set, fatal(..) unwinds to the recover in main instead of exiting, so that a rejection in
// one generated file (ApiGo.lean) does not take the independent files generated after it with it; the exit
// status is 2 all the same.
type fatalErr string

var softFatal bool

func fatal(f string, a ...interface{}) {
	if softFatal {
		panic(fatalErr(fmt.Sprintf(f, a...)))
	}
	fmt.Fprintf(os.Stderr, "extract: "+f+"\n", a...)
	os.Exit(2)
}

func parseFile(fset *token.FileSet, path string) *ast.File {
	f, err := parser.ParseFile(fset, path, nil, parser.ParseComments)
	if err != nil {
		fatal("parse %s: %v", path, err)
	}
	return f
}

// evalConst evaluates a constant integer expression using the given environment.
func evalConst(e ast.Expr, env map[string]constant.Value) (constant.Value, bool) {
	switch x := e.(type) {
	case *ast.BasicLit:
		v := constant.MakeFromLiteral(x.Value, x.Kind, 0)
		if v.Kind() == constant.Unknown {
			return nil, false
		}
		return v, true
	case *ast.Ident:
		if x.Name == "true" {
			return constant.MakeBool(true), true
		}
		if x.Name == "false" {
			return constant.MakeBool(false), true
		}
		v, ok := env[x.Name]
		return v, ok
	case *ast.ParenExpr:
		return evalConst(x.X, env)
	case *ast.UnaryExpr:
		v, ok := evalConst(x.X, env)
		if !ok {
			return nil, false
		}
		return constant.UnaryOp(x.Op, v, 0), true
	case *ast.BinaryExpr:
		a, ok := evalConst(x.X, env)
		if !ok {
			return nil, false
		}
		b, ok := evalConst(x.Y, env)
		if !ok {
			return nil, false
		}
		switch x.Op {
		case token.SHL, token.SHR:
			s, ok := constant.Uint64Val(b)
			if !ok {
				return nil, false
			}
			return constant.Shift(a, x.Op, uint(s)), true
		case token.QUO:
			return constant.BinaryOp(a, token.QUO_ASSIGN, b), true // integer division
		default:
			return constant.BinaryOp(a, x.Op, b), true
		}
	case *ast.CallExpr: // conversions like ffe8(1), uint64(…)
		if len(x.Args) == 1 {
			return evalConst(x.Args[0], env)
		}
	}
	return nil, false
}

// fileConsts collects the integer/bool constants declared at top level of a file.
func fileConsts(f *ast.File) map[string]constant.Value {
	env := map[string]constant.Value{}
	for pass := 0; pass < 3; pass++ {
		for _, d := range f.Decls {
			gd, ok := d.(*ast.GenDecl)
			if !ok || gd.Tok != token.CONST {
				continue
			}
			for _, s := range gd.Specs {
				vs := s.(*ast.ValueSpec)
				for i, n := range vs.Names {
					if i < len(vs.Values) {
						if v, ok := evalConst(vs.Values[i], env); ok {
							env[n.Name] = v
						}
					}
				}
			}
		}
	}
	return env
}

// flatten a (possibly nested) composite literal of integer constants
func flatten(e ast.Expr, env map[string]constant.Value, out *[]uint64, dims *[]int, depth int) {
	cl, ok := e.(*ast.CompositeLit)
	if !ok {
		v, ok := evalConst(e, env)
		if !ok {
			fatal("non-constant table element at depth %d", depth)
		}
		u, ok := constant.Uint64Val(v)
		if !ok {
			fatal("table element not uint64")
		}
		*out = append(*out, u)
		return
	}
	if len(*dims) <= depth {
		*dims = append(*dims, len(cl.Elts))
	} else if (*dims)[depth] != len(cl.Elts) {
		fatal("ragged table literal")
	}
	for _, el := range cl.Elts {
		if kv, ok := el.(*ast.KeyValueExpr); ok {
			_ = kv
			fatal("keyed table literal not supported")
		}
		flatten(el, env, out, dims, depth+1)
	}
}

// maskOf recognises `(maxInt - K)` and returns K+1 (the granularity), 0 otherwise
func maskOf(e ast.Expr, env map[string]constant.Value) uint64 {
	if p, ok := e.(*ast.ParenExpr); ok {
		e = p.X
	}
	be, ok := e.(*ast.BinaryExpr)
	if !ok || be.Op != token.SUB {
		return 0
	}
	if id, ok := be.X.(*ast.Ident); !ok || id.Name != "maxInt" {
		return 0
	}
	v, ok := evalConst(be.Y, env)
	if !ok {
		return 0
	}
	k, ok := constant.Uint64Val(v)
	if !ok {
		return 0
	}
	return k + 1
}

func findVar(f *ast.File, name string) ast.Expr {
	for _, d := range f.Decls {
		gd, ok := d.(*ast.GenDecl)
		if !ok || gd.Tok != token.VAR {
			continue
		}
		for _, s := range gd.Specs {
			vs := s.(*ast.ValueSpec)
			for i, n := range vs.Names {
				if n.Name == name && i < len(vs.Values) {
					return vs.Values[i]
				}
			}
		}
	}
	return nil
}

// findLocalLit finds `name := <composite literal>` inside function fn.
func findLocalLit(f *ast.File, fn, name string) ast.Expr {
	var res ast.Expr
	for _, d := range f.Decls {
		fd, ok := d.(*ast.FuncDecl)
		if !ok || fd.Name.Name != fn || fd.Body == nil {
			continue
		}
		ast.Inspect(fd.Body, func(n ast.Node) bool {
			as, ok := n.(*ast.AssignStmt)
			if !ok || len(as.Lhs) != 1 || len(as.Rhs) != 1 {
				return true
			}
			if id, ok := as.Lhs[0].(*ast.Ident); ok && id.Name == name {
				if _, ok := as.Rhs[0].(*ast.CompositeLit); ok && res == nil {
					res = as.Rhs[0]
				}
			}
			return true
		})
	}
	return res
}

func hexRow(vals []uint64, bytesPer int) string {
	// little-endian packing: entry i occupies bits [8*bytesPer*i, 8*bytesPer*(i+1))
	var sb strings.Builder
	sb.WriteString("0x")
	for i := len(vals) - 1; i >= 0; i-- {
		fmt.Fprintf(&sb, "%0*x", bytesPer*2, vals[i])
	}
	return sb.String()
}

func main() {
	if len(os.Args) != 3 {
		fatal("usage: extract <repo-dir> <out-dir>")
	}
	repo, out := os.Args[1], os.Args[2]
	fset := token.NewFileSet()
	need := []string{"galois.go", "leopard.go", "leopard8.go", "reedsolomon.go",
		"galois_gen_switch_amd64.go", "galois_gen_switch_nopshufb_amd64.go", "galois_gen_none.go",
		"unsafe.go", "unsafe_disabled.go", "streaming.go", "options.go", "matrix.go"}
	files := map[string]*ast.File{}
	for _, n := range need {
		files[n] = parseFile(fset, filepath.Join(repo, n))
	}
	if err := os.MkdirAll(out, 0o755); err != nil {
		fatal("%v", err)
	}
	// delete stale generated files first
	for _, n := range []string{"Tables.lean", "Facts.lean", "Switch.lean", "Funcs.lean", "MatrixGo.lean", "ApiGo.lean"} {
		os.Remove(filepath.Join(out, n))
	}

	// ---------- Tables.lean ----------
	var tb strings.Builder
	tb.WriteString("/-! GENERATED by /verif/tools/extract from /repo/galois.go — do not edit.\n")
	tb.WriteString("Every table is packed little-endian into `Nat` literals: entry `i` of a row of\n")
	tb.WriteString("`w`-byte entries is `(row >>> (8*w*i)) &&& (2^(8*w)-1)`. -/\nnamespace RSV.Gen\n\n")
	gal := files["galois.go"]
	genv := fileConsts(gal)
	type tspec struct {
		name     string
		dims     []int
		bytesPer int
	}
	specs := []tspec{
		{"logTable", []int{256}, 1}, {"expTable", []int{256}, 1}, {"invTable", []int{256}, 1},
		{"mulTable", []int{256, 256}, 1}, {"mulTableLow", []int{256, 16}, 1}, {"mulTableHigh", []int{256, 16}, 1},
		{"gf2p811dMulMatrices", []int{256}, 8},
	}
	for _, sp := range specs {
		e := findVar(gal, sp.name)
		if e == nil {
			fatal("table %s not found in galois.go", sp.name)
		}
		var vals []uint64
		var dims []int
		flatten(e, genv, &vals, &dims, 0)
		if len(dims) != len(sp.dims) {
			fatal("table %s: rank %d, expected %d", sp.name, len(dims), len(sp.dims))
		}
		for i := range dims {
			if dims[i] != sp.dims[i] {
				fatal("table %s: dim %d is %d, expected %d", sp.name, i, dims[i], sp.dims[i])
			}
		}
		for _, v := range vals {
			if sp.bytesPer == 1 && v > 255 {
				fatal("table %s: entry %d out of byte range", sp.name, v)
			}
		}
		if len(dims) == 1 {
			fmt.Fprintf(&tb, "def %s : Nat := %s\n\n", sp.name, hexRow(vals, sp.bytesPer))
		} else {
			fmt.Fprintf(&tb, "def %sRows : Array Nat := #[\n", sp.name)
			for r := 0; r < dims[0]; r++ {
				sep := ","
				if r == dims[0]-1 {
					sep = ""
				}
				fmt.Fprintf(&tb, "  %s%s\n", hexRow(vals[r*dims[1]:(r+1)*dims[1]], sp.bytesPer), sep)
			}
			tb.WriteString("]\n\n")
		}
	}
	tb.WriteString("end RSV.Gen\n")
	if err := os.WriteFile(filepath.Join(out, "Tables.lean"), []byte(tb.String()), 0o644); err != nil {
		fatal("%v", err)
	}

	// ---------- Facts.lean ----------
	var fb strings.Builder
	fb.WriteString("/-! GENERATED by /verif/tools/extract from the Go sources under /repo — do not edit. -/\nnamespace RSV.Gen\n\n")
	type cspec struct{ file, goName, leanName string }
	cs := []cspec{
		{"galois.go", "generatingPolynomial", "generatingPolynomial"},
		{"galois.go", "fieldSize", "fieldSize"},
		{"leopard8.go", "polynomial8", "polynomial8"},
		{"leopard8.go", "bitwidth8", "bitwidth8"},
		{"leopard8.go", "order8", "order8"},
		{"leopard8.go", "modulus8", "modulus8"},
		{"leopard8.go", "workSize8", "workSize8"},
		{"leopard8.go", "inversion8Bytes", "inversion8Bytes"},
		{"leopard.go", "polynomial", "polynomial16"},
		{"leopard.go", "bitwidth", "bitwidth16"},
		{"leopard.go", "order", "order16"},
		{"leopard.go", "modulus", "modulus16"},
		{"reedsolomon.go", "codeGenMinSize", "codeGenMinSize"},
		{"reedsolomon.go", "codeGenMinShards", "codeGenMinShards"},
		{"reedsolomon.go", "gfniCodeGenMaxGoroutines", "gfniCodeGenMaxGoroutines"},
		{"galois_gen_switch_amd64.go", "codeGenMaxGoroutines", "codeGenMaxGoroutines"},
		{"galois_gen_switch_amd64.go", "codeGenMaxInputs", "codeGenMaxInputs"},
		{"galois_gen_switch_amd64.go", "codeGenMaxOutputs", "codeGenMaxOutputs"},
		{"galois_gen_switch_amd64.go", "minCodeGenSize", "minCodeGenSize"},
	}
	for _, c := range cs {
		env := fileConsts(files[c.file])
		v, ok := env[c.goName]
		if !ok {
			fatal("constant %s not found in %s", c.goName, c.file)
		}
		u, ok := constant.Uint64Val(v)
		if !ok {
			fatal("constant %s in %s is not an unsigned integer", c.goName, c.file)
		}
		fmt.Fprintf(&fb, "def %s : Nat := %d\n", c.leanName, u)
	}
	fb.WriteString("\n")
	// literal arrays
	type aspec struct{ file, fn, goName, leanName string; n int }
	as := []aspec{
		{"leopard8.go", "initLUTs8", "cantorBasis", "cantorBasis8", 8},
		{"leopard.go", "initLUTs", "cantorBasis", "cantorBasis16", 16},
		{"leopard.go", "", "kHiMasks", "kHiMasks", 5},
	}
	for _, a := range as {
		var e ast.Expr
		if a.fn == "" {
			e = findVar(files[a.file], a.goName)
		} else {
			e = findLocalLit(files[a.file], a.fn, a.goName)
		}
		if e == nil {
			fatal("array %s not found in %s", a.goName, a.file)
		}
		var vals []uint64
		var dims []int
		flatten(e, fileConsts(files[a.file]), &vals, &dims, 0)
		if len(vals) != a.n {
			fatal("array %s in %s has %d entries, expected %d", a.goName, a.file, len(vals), a.n)
		}
		strs := make([]string, len(vals))
		for i, v := range vals {
			strs[i] = fmt.Sprintf("%d", v)
		}
		fmt.Fprintf(&fb, "def %s : List Nat := [%s]\n", a.leanName, strings.Join(strs, ", "))
	}
	// AllocAligned constants: alignEach/alignStart in unsafe.go, literal 64/63 in unsafe_disabled.go are
	// checked by correspondence (C09); here we record the two named constants.
	{
		var found = map[string]uint64{}
		ast.Inspect(files["unsafe.go"], func(n ast.Node) bool {
			gd, ok := n.(*ast.GenDecl)
			if !ok || gd.Tok != token.CONST {
				return true
			}
			for _, s := range gd.Specs {
				vs := s.(*ast.ValueSpec)
				for i, nm := range vs.Names {
					if i < len(vs.Values) {
						if v, ok := evalConst(vs.Values[i], nil); ok {
							if u, ok := constant.Uint64Val(v); ok {
								found[nm.Name] = u
							}
						}
					}
				}
			}
			return true
		})
		keys := make([]string, 0, len(found))
		for k := range found {
			keys = append(keys, k)
		}
		sort.Strings(keys)
		for _, k := range keys {
			fmt.Fprintf(&fb, "def unsafe_%s : Nat := %d\n", k, found[k])
		}
	}
	fb.WriteString("\nend RSV.Gen\n")
	if err := os.WriteFile(filepath.Join(out, "Facts.lean"), []byte(fb.String()), 0o644); err != nil {
		fatal("%v", err)
	}

	// ---------- Switch.lean ----------
	var sb strings.Builder
	sb.WriteString("/-! GENERATED by /verif/tools/extract from /repo/galois_gen_switch_amd64.go — do not edit. -/\nnamespace RSV.Gen\n\n")
	// the six switch functions of the generated kernels: for every case (inputs, outputs) the mask K of
	// `return n & (maxInt - K)` (or of the leading `n := (stop-start) & (maxInt - (G-1))`) and whether the
	// callee's name carries the expected shape "<in>x<out>"
	sb.WriteString("/-- (function code, inputs, outputs, granularity, callee name ok) for every case of the six kernel switch functions;\nfunction codes: 0 galMulSlicesAvx2, 1 …Avx2Xor, 2 …GFNI, 3 …GFNIXor, 4 …AvxGFNI, 5 …AvxGFNIXor -/\n")
	sb.WriteString("def kernelSwitch : List (Nat × Nat × Nat × Nat × Bool) := [\n")
	first := true
	for fnCode, fn := range []string{"galMulSlicesAvx2", "galMulSlicesAvx2Xor", "galMulSlicesGFNI", "galMulSlicesGFNIXor", "galMulSlicesAvxGFNI", "galMulSlicesAvxGFNIXor"} {
		var fd *ast.FuncDecl
		for _, d := range files["galois_gen_switch_amd64.go"].Decls {
			if f, ok := d.(*ast.FuncDecl); ok && f.Name.Name == fn {
				fd = f
			}
		}
		if fd == nil {
			fatal("switch function %s not found", fn)
		}
		env := fileConsts(files["reedsolomon.go"])
		// leading granularity: n := (stop - start) & (maxInt - (G - 1))
		lead := uint64(0)
		ast.Inspect(fd.Body, func(n ast.Node) bool {
			as, ok := n.(*ast.AssignStmt)
			if !ok || len(as.Rhs) != 1 || lead != 0 {
				return true
			}
			if be, ok := as.Rhs[0].(*ast.BinaryExpr); ok && be.Op == token.AND {
				if m := maskOf(be.Y, env); m != 0 {
					lead = m
				}
			}
			return true
		})
		cases := 0
		for _, st := range fd.Body.List {
			sw, ok := st.(*ast.SwitchStmt)
			if !ok {
				continue
			}
			for _, cc := range sw.Body.List {
				c1 := cc.(*ast.CaseClause)
				if len(c1.List) != 1 {
					continue
				}
				inV, _ := evalConst(c1.List[0], env)
				nin, _ := constant.Uint64Val(inV)
				for _, st2 := range c1.Body {
					sw2, ok := st2.(*ast.SwitchStmt)
					if !ok {
						continue
					}
					for _, cc2 := range sw2.Body.List {
						c2 := cc2.(*ast.CaseClause)
						if len(c2.List) != 1 {
							continue
						}
						outV, _ := evalConst(c2.List[0], env)
						nout, _ := constant.Uint64Val(outV)
						g := lead
						callee := ""
						for _, st3 := range c2.Body {
							switch x := st3.(type) {
							case *ast.ExprStmt:
								if call, ok := x.X.(*ast.CallExpr); ok {
									if id, ok := call.Fun.(*ast.Ident); ok {
										callee = id.Name
									}
								}
							case *ast.ReturnStmt:
								if len(x.Results) == 1 {
									if be, ok := x.Results[0].(*ast.BinaryExpr); ok && be.Op == token.AND {
										if m := maskOf(be.Y, env); m != 0 {
											g = m
										}
									}
								}
							}
						}
						nameOK := strings.Contains(callee, fmt.Sprintf("_%dx%d", nin, nout)) &&
							strings.HasSuffix(callee, "Xor") == strings.HasSuffix(fn, "Xor")
						if !first {
							sb.WriteString(",\n")
						}
						first = false
						fmt.Fprintf(&sb, "  (%d, %d, %d, %d, %v)", fnCode, nin, nout, g, nameOK)
						cases++
					}
				}
			}
		}
		if cases != 100 {
			fatal("switch function %s: %d cases, expected 100", fn, cases)
		}
	}
	sb.WriteString("]\n")
	sb.WriteString("\nend RSV.Gen\n")
	if err := os.WriteFile(filepath.Join(out, "Switch.lean"), []byte(sb.String()), 0o644); err != nil {
		fatal("%v", err)
	}

	tinfo := map[string]tableInfo{}
	for _, sp := range specs {
		tinfo[sp.name] = tableInfo{dims: sp.dims, bytesPer: sp.bytesPer}
	}

	// ---------- ApiGo.lean ----------
	// the argument-validation helpers of reedsolomon.go, imperative mode over shard SHAPES (imper.go: shape mode).
	// The file imports nothing and is translated on its own, function by function: a function that is rejected
	// (and the listed functions that call it) is left out of ApiGo.lean and reported, the exit status is 2 at the
	// end, after Funcs.lean / MatrixGo.lean have been written; a rejection there happens after ApiGo.lean has
	// been written.
	alist := []fspec{
		{file: "reedsolomon.go", name: "shardSize", lean: "shardSize", imp: true, shape: true, group: "ApiGo"},
		{file: "reedsolomon.go", name: "checkShards", lean: "checkShards", imp: true, shape: true, group: "ApiGo"},
		// the size computation of Split (prefix mode): the values of perShard and needTotal
		{file: "reedsolomon.go", recv: "reedSolomon", name: "Split", lean: "reedSolomon_Split_sizes", imp: true, shape: true, group: "ApiGo", upto: []string{"perShard", "needTotal"}},
		{file: "leopard8.go", recv: "leopardFF8", name: "Split", lean: "leopardFF8_Split_sizes", imp: true, shape: true, group: "ApiGo", upto: []string{"perShard", "needTotal"}},
		{file: "leopard.go", recv: "leopardFF16", name: "Split", lean: "leopardFF16_Split_sizes", imp: true, shape: true, group: "ApiGo", upto: []string{"perShard", "needTotal"}},
	}
	apiErr := ""
	func() {
		softFatal = true
		defer func() {
			softFatal = false
			if r := recover(); r != nil {
				fe, ok := r.(fatalErr)
				if !ok {
					panic(r)
				}
				apiErr = string(fe)
			}
		}()
		atext := genFuncs(fset, files, need, tinfo, alist)["ApiGo"]
		if err := os.WriteFile(filepath.Join(out, "ApiGo.lean"), []byte(atext), 0o644); err != nil {
			fatal("%v", err)
		}
	}()
	if apiErr != "" {
		fmt.Fprintf(os.Stderr, "extract: ApiGo.lean not generated: %s\n", apiErr)
	}
	for _, sk := range skippedFuncs {
		fmt.Fprintf(os.Stderr, "extract: ApiGo.lean: %s not generated: %s\n", sk[0], sk[1])
		apiErr = "functions left out"
	}

	// ---------- Funcs.lean ----------
	// the small pure scalar functions, translated statement by statement (funcs.go)
	flist := []fspec{
		{file: "galois.go", name: "galAdd", lean: "galAdd"},
		{file: "galois.go", name: "galMultiply", lean: "galMultiply"},
		{file: "galois.go", name: "galDivide", lean: "galDivide"},
		{file: "galois.go", name: "galOneOver", lean: "galOneOver"},
		{file: "galois.go", name: "galExp", lean: "galExp"},
		{file: "leopard.go", name: "addMod", lean: "addMod"},
		{file: "leopard.go", name: "subMod", lean: "subMod"},
		{file: "leopard.go", name: "mulLog", lean: "mulLog"},
		{file: "leopard.go", name: "ceilPow2", lean: "ceilPow2"},
		{file: "leopard.go", name: "fwht2alt", lean: "fwht2alt"},
		{file: "leopard8.go", name: "addMod8", lean: "addMod8"},
		{file: "leopard8.go", name: "subMod8", lean: "subMod8"},
		{file: "leopard8.go", name: "mulLog8", lean: "mulLog8"},
		{file: "leopard8.go", name: "fwht2alt8", lean: "fwht2alt8"},
		{file: "leopard8.go", recv: "errorBitfield8", name: "isNeeded", lean: "errorBitfield8_isNeeded"},
		{file: "leopard.go", recv: "errorBitfield", name: "isNeeded", lean: "errorBitfield_isNeeded"},
		// matrix.go, imperative mode (MatrixGo.lean)
		{file: "matrix.go", name: "newMatrix", lean: "newMatrix", imp: true, group: "MatrixGo"},
		{file: "matrix.go", name: "identityMatrix", lean: "identityMatrix", imp: true, group: "MatrixGo"},
		{file: "matrix.go", recv: "matrix", name: "Augment", lean: "matrix_Augment", imp: true, group: "MatrixGo"},
		{file: "matrix.go", recv: "matrix", name: "SubMatrix", lean: "matrix_SubMatrix", imp: true, group: "MatrixGo"},
		{file: "matrix.go", recv: "matrix", name: "SwapRows", lean: "matrix_SwapRows", imp: true, group: "MatrixGo"},
		{file: "matrix.go", recv: "matrix", name: "IsSquare", lean: "matrix_IsSquare", imp: true, group: "MatrixGo"},
		{file: "matrix.go", recv: "matrix", name: "gaussianElimination", lean: "matrix_gaussianElimination", imp: true, group: "MatrixGo"},
		{file: "matrix.go", recv: "matrix", name: "Invert", lean: "matrix_Invert", imp: true, group: "MatrixGo"},
		{file: "matrix.go", name: "vandermonde", lean: "vandermonde", imp: true, group: "MatrixGo"},
		{file: "matrix.go", recv: "matrix", name: "Multiply", lean: "matrix_Multiply", imp: true, group: "MatrixGo"},
		{file: "reedsolomon.go", name: "buildMatrix", lean: "buildMatrix", imp: true, group: "MatrixGo"},
		{file: "reedsolomon.go", name: "buildMatrixPAR1", lean: "buildMatrixPAR1", imp: true, group: "MatrixGo"},
		{file: "reedsolomon.go", name: "buildMatrixCauchy", lean: "buildMatrixCauchy", imp: true, group: "MatrixGo"},
		{file: "reedsolomon.go", name: "buildXorMatrix", lean: "buildXorMatrix", imp: true, group: "MatrixGo"},
	}
	ftexts := genFuncs(fset, files, need, tinfo, flist)
	if err := os.WriteFile(filepath.Join(out, "Funcs.lean"), []byte(ftexts[""]), 0o644); err != nil {
		fatal("%v", err)
	}
	if err := os.WriteFile(filepath.Join(out, "MatrixGo.lean"), []byte(ftexts["MatrixGo"]), 0o644); err != nil {
		fatal("%v", err)
	}
	if apiErr != "" {
		os.Exit(2)
	}
}
