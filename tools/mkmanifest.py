#!/usr/bin/env python3
"""Regenerates /verif/MANIFEST.json from the table below (edit here, not the JSON)."""
import json, os
V = os.path.dirname(os.path.dirname(os.path.abspath(__file__)))

TB = ("Trusted: Lean 4.33.0 kernel, axioms propext/Classical.choice/Quot.sound only (audited by #print axioms on every "
      "property theorem; no sorry/native_decide/bv_decide), Mathlib v4.33.0 as compiled, the go/ast translator "
      "tools/extract (Tie A), the Go harness + compiled Lean driver and their op generators (Tie B).")

CHECKS = {
 "C01": dict(
  technique="Lean 4 theorem (generalised-Cauchy MDS via polynomial root counting) + proved certificate run on extracted generators",
  text="Proof: C01_cauchy, C01_xor, C01_default, C01_jerasure quantify over all (d,p) with d+p<=256 and all survivor sets (no "
       "enumeration): a degree<d polynomial with d roots is zero; the default generator is proved equal to the Lagrange matrix "
       "through the proved Gaussian elimination; the Jerasure builder (modified Vandermonde with a point at infinity, pivot "
       "search, column scaling/elimination, two normalisation passes - modelled literally) keeps 'any d rows independent' "
       "through every operation, its pivot search never fails, its top is the identity and its first parity row/column are "
       "ones. Leopard GF(2^8) and GF(2^16): C04_leo8_encode_all / C04_leo16_encode_all / C01_leo8_any_d_all / "
       "C01_leo16_any_d_all - for EVERY admissible (d,p) (d + ceilPow2 p <= 256 resp. 65536) the executable schedule model "
       "of Encode computes the systematic code of an explicit generalised Cauchy matrix v_g/(w_r - w_{m+c}) over GF256 / "
       "GF65536, which is MDS (Lin-Chung-Han additive FFT proved correct: subspace polynomials, novel basis, butterfly "
       "network = evaluation/interpolation; the literal radix-4 truncated loops refine the radix-2 network; the skew table "
       "is proved structurally to hold the twiddle logarithms). In addition they are decided per configuration by running the proved checkers "
       "(C01_certGC, C01_leo8_cert, C01_leo16_cert: certificate = true -> MDS; Leopard's fields are GF256 / GF65536 under the "
       "Cantor map, C17leo_toGF / C17gf16_toGF, so an MDS image means any d symbols computed in Leopard's own arithmetic "
       "determine the message, C01_leo8_any_d / C01_leo16_any_d) in "
       "the compiled driver. Tie: generators extracted from the real encoder (Encode of unit vectors) must equal the model's.",
  note=TB + " Modelled not verified: that Encode applies this generator column-wise (C03). Leopard: the general theorems are about the "
       "schedule MODEL with the model's tables; the package is tied to it by the complete log/exp/skew table comparison, the "
       "generator comparison per explored configuration (all 21,845 Leopard GF8 pairs in the thorough tier) and C08's kernel "
       "tie. Leopard GF16: "
       "certificate per explored configuration up to 400,000 generator entries, above that equality with the Lagrange closed "
       "form on sampled columns and C05's reconstructions.",
  design="4/C01"),
 "C02": dict(
  technique="Lean 4 theorem: the modelled reconstruct algorithm equals its specification for every MDS generator (via proved Gaussian elimination)",
  text="Proof: C02_mds - for every MDS generator over any field, every presence pattern, mode (Reconstruct / ReconstructData / "
       "ReconstructSome with either mask length), shard length and content, the modelled algorithm (first d present rows, "
       "invert, decode, re-encode requested parity) returns exactly the specification: ErrTooFewShards iff fewer than d present, "
       "otherwise every filled shard is the original and present shards are untouched. C02_never_wrong / C02_any: for ANY "
       "generator (PAR1, custom) success never carries wrong bytes. Tie: op-level correspondence of the real Reconstruct* calls "
       "against L0 (and L1 for d<=24), exhaustive over erasure sets for small configurations. The inversion itself is tied by "
       "theorem: matrix.go is regenerated into Lean on every run and C17m_Invert proves the regenerated Invert (pivot search, "
       "!=1 / !=0 shortcuts, both sweeps) equal to the model's inversion for every square byte matrix, singular verdict included.",
  note=TB + " Modelled: nil/empty/empty-with-capacity all denote 'missing' (exercised by correspondence); the inversion cache "
       "(C10) and the SIMD/chunked evaluation of encodeRow (C03/C07/C08) are assumed here.",
  design="4/C02"),
 "C03": dict(
  technique="Lean 4 theorems: closed forms of every generator family + column-local linear encode; tables by kernel evaluation",
  text="Proof: for all (d,p): default generator = Lagrange/Backblaze matrix (C03_default_entry, uniqueness C03_default_unique), "
       "Cauchy = 1/(i xor j), PAR1 = (c+1)^r, XOR = 1, top square = identity; Encode's parity byte k = sum_c A[r][c]*data[c][k] "
       "depends only on column k (C03_local), is linear (C03_linear), data untouched. Tie: generators of all six options through "
       "Encode of unit vectors, and Encode on seeded data around every dispatch threshold, option sets and tails 0..63, against "
       "encodeSpec evaluated with shift-and-reduce products. The generator builders are tied by theorem as well: buildMatrix, "
       "buildMatrixCauchy, buildMatrixPAR1, buildXorMatrix, vandermonde, Multiply are regenerated from the Go source on every run and "
       "proved equal to the model's builders for every shape (C17m_*).",
  note=TB + " The dispatch (which kernel covers which byte range) is exercised by correspondence here and modelled in C07; "
       "assembly kernels are tied by execution (C08).",
  design="4/C03"),
 "C04": dict(
  technique="Lean 4 theorems about an interpreter of butterfly schedules (locality, linearity, scratch independence) + Leopard GF(2^8) field tied to GF256 by kernel-evaluated tables; generators vs Lagrange closed form by execution",
  text="Proof: C04_local / C04_chunking / C04_linear / C04_superpose / C04_scratch and their lifts to `encode` hold for ARBITRARY "
       "step lists, hence for every (d,p), shard size and content: no chunking (incl. the 32 KiB work chunk) can change a "
       "symbol, the output is determined by the unit vectors, reused work buffers cannot matter. C17leo_*: Leopard's GF(2^8) "
       "log/exp/product tables, evaluated by the kernel, are GF(2^8)/0x11D under the Cantor map; constants regenerated from "
       "the Go source are the published ones. C04_encodeSched_inRange / C05_reconSched_inRange: every step of the generated "
       "Encode / Reconstruct schedule addresses rows and shards in range, for ALL (d,p), erasure sets and locator tables, so "
       "C04_encode_local_all / _chunking_all / _linear_all hold with no per-configuration hypothesis. "
       "C04_leo8_encode_all / C04_leo16_encode_all: for every admissible (d,p), every shard length and content, every parity "
       "symbol of the schedule model is the codeword coordinate of the explicit generalised Cauchy (shortened RS) generator "
       "over Leopard's field in its Cantor basis, and that generator is MDS - no configuration is enumerated. Tie: generators of the real encoders (all 21,845 GF8 pairs in the thorough tier, a "
       "structured sample + GF16 grid in the quick tier) = schedule model = Lagrange closed form over nodes m..n-1; the "
       "remaining structural hypothesis (no read-before-write of work rows) decided per configuration; seeded encodes at "
       "sizes straddling the 32 KiB chunk, forced GF16, option sets; Leopard Verify flips.",
  note=TB + " The general theorem is about the schedule model with the model's tables (initLUTs / initFFTSkew mirrored loop "
       "by loop); the package is tied to it by complete table comparison, generators per explored configuration and seeded "
       "encodes. xor-linearity of the table product is proved for both fields "
       "(C04_mulLinearOn_gf8 by kernel evaluation, C04_mulLinearOn_gf16 structurally), so C04_encode_linear_gf8/gf16 carry no "
       "algebraic hypothesis; SIMD butterflies = reference by C08's execution tie.",
  design="4/C04, 10.2"),
 "C05": dict(
  technique="Lean 4 theorem: the reconstruct schedule model restores every erased shard for every admissible shape and every erasure set (LCH decoder: FWHT locator, novel-basis formal derivative) + exhaustive erasure-set correspondence on small configurations",
  text="Proof: C05_leo8_reconstruct_all / C05_leo16_reconstruct_all - for ALL 0<d, p with ceilPow2(p)+d <= 256 (65536), all "
       "well-formed data, ALL erasure sets of at most p of the d+p shards, both modes, whatever sits in the missing slots: the "
       "executable model of reconstruct (error-locator table by truncated fast Walsh-Hadamard transforms in Leopard's folded "
       "arithmetic mod 2^k-1, locator-weighted load, truncated radix-4 inverse FFT, the in-place formal-derivative xor loop, "
       "truncated radix-4 FFT, division by the locator derivative) returns exactly the original data shard / the parity shard "
       "Encode produces at every missing index and nothing elsewhere. Ingredients, all proved: Walsh-Hadamard convolution "
       "theorem (C05_leo8/16_errLocs: the table holds log Lambda / log Lambda'), Cantor bases (C05_cantor_bases) make the "
       "subspace polynomials' derivative 1 so the xor loop computes g+g' in the novel basis, the encoder's codeword is one "
       "polynomial of degree < n-m, (f Lambda)'(w_e) = f(w_e) Lambda'(w_e), refinement of the literal loop schedules. Also: "
       "C05_local / C05_linear / C05_scratch, C05_present_untouched, C05_data_only, C05_errLocs_fn / C05_reconSched_fn, "
       "C05_reconstruct_local/chunking/linear(_all), C05_prune_sound / C05_prune_bf8 / C05_prune_bf16 (the bit-field-pruned "
       "final FFT, modelled loop by loop with the word-level mip-map bit field, returns exactly what the full FFT returns - "
       "every shape, erasure set and mode), C05_bf8_prepare / C05_bf16_prepare (word-level mip-map bit field = 'the "
       "aligned block holds an erasure'), C05_bf8_cacheID_injective. Tie: Reconstruct* of the real "
       "encoders vs original bytes (L0) and schedule model (L1): every erasure set with |E|<=p+1 for GF8 d+p<=6 and forced "
       "GF16 d+p<=5, seeded larger ones incl. <=p/4 erasures with >=64 KiB sets (bit-field shortcut), n>=8192 GF16 "
       "transforms, sequences of reconstructions on one encoder (locator cache), three encodings of missing; unit-level: "
       "isNeeded after prepare() for every block and level (GF8 and GF16).",
  note=TB + " The theorems are about the schedule model (full and pruned FFT) with the model's tables; that the Go code "
       "equals the model is by correspondence (this check, complete table comparison in C17/C01/C04, kernels in C08).",
  design="4/C05, 10.2"),
 "C06": dict(
  technique="Lean 4 theorems: Verify-iff, single-byte flip detection from non-zero generator entries of MDS matrices",
  text="Proof: C06_iff, C06_flip_parity, C06_flip_data with C06_mds_entry_ne_zero (every MDS generator has no zero entry, so any "
       "single byte change in any shard at any offset is detected), excluded points p=0 and zero columns stated as theorems. "
       "Leopard GF8/GF16 (C06_leo8_* / C06_leo16_*, every admissible shape): the re-encode-and-compare Verify of the model "
       "accepts every encoded set (C06_leo_valid, C06_leo_iff), rejects every single-symbol change in any parity shard "
       "(C06_leo_flip_parity) and in any data shard - every parity symbol at that position changes, because every entry of "
       "the MDS generator is non-zero (C06_leo_flip_data_every_parity) - and any corruption confined to <= p data shards "
       "(C06_leo_detects_upto_p). Tie: "
       "Verify on encoded sets with every (shard, offset) flipped for short shards (all SIMD tails) and boundary/random offsets "
       "of large shards, all 255 deltas; shards hashed before/after.",
  note=TB + " Leopard GF8/GF16 Verify of the package is tied to the model by execution (every shard of shapes incl. "
       "p > d, sizes straddling the 32 KiB chunk, concurrent callers). Stream Verify is exercised in C14.",
  design="4/C06"),
 "C07": dict(
  technique="Lean 4 theorems: the range splitting is a partition for all option values; four builds x option matrix x GOMAXPROCS vs one L0 answer",
  text="Proof: C07_allPieces_chain / C07_chain_partition / C07_evalPieces / C07_options - for every byte count and every value of "
       "maxGoroutines, minSplitSize, perRound and kernel granularity (or no kernel), the modelled worker ranges, kernel prefix and "
       "scalar rounds cover [0,n) exactly once, worker ranges are pairwise disjoint (any schedule of the internal workers gives the "
       "same bytes), and piecewise evaluation of a column-local function equals whole evaluation; hence any two option records "
       "agree; C07_derive_positive etc.: the parameters New derives (perRound, minSplitSize, maxGoroutines) are positive for every "
       "cpuid cache size, thread topology, GOMAXPROCS >= 1 and option record, which discharges the hypotheses of the range "
       "theorems. Tie: the derived parameters of real encoders = RSV.Model.Options.derive under GOMAXPROCS 1/2/5/16; "
       "one op file (Encode/Verify/Reconstruct/EncodeIdx/Update of the matrix codec, sizes around every threshold, tails 0..63; "
       "Encode/Reconstruct/Verify of Leopard GF8 and GF16 vs the schedule model) through "
       "the default, noasm, nopshufb and nounsafe builds under GOMAXPROCS 1/2/16 with a 24-row option matrix, all compared "
       "with the single option-free L0 answer.",
  note=TB + " cpuid detection and the option->path mapping are exercised, not modelled; kernels meet their contract by C08; the "
       "nogen tag does not compile on amd64 at the pinned commit.",
  design="4/C07"),
 "C08": dict(
  technique="Lean 4 reflective checker with soundness theorem for the text of all generated amd64 kernels (re-parsed every run) + kernel evaluation of the per-lane recipes + lane-exhaustive execution of every assembly kernel",
  text="Proof: C08_asm_sound - the text of every generated kernel (600 in galois_gen_amd64.s, 400 in the nopshufb file; parsed "
       "from /repo on every run) is fed to a checker that executes it symbolically (pointers as region+offset, vector registers "
       "as lane-uniform byte expressions, xor compared as a multiset with no x^x cancellation) and that is PROVED sound against "
       "a byte-level semantics of the 21 instructions used: an accepted kernel, for every coefficient matrix, inputs, old "
       "outputs, start and n meeting the calling contract (C08_asm_contract_sat: satisfiable), terminates without any "
       "out-of-bounds access and leaves in each output on [start,start+count) exactly the GF(2^8) matrix product (xor-ed onto "
       "the old bytes for the Xor variants), every other byte of every region unchanged. C08_asm_leo_sound / C08_asm_hand_sound / "
       "C08_asm_spec_*: the same for the remaining 81 + 19 amd64 kernels - Leopard GF8/GF16 butterflies with their skip "
       "masks, mulgf16, the xor slices and the six hand-written galMul* kernels (incl. the two-loop SSSE3 ones with their "
       "alignment dispatch) - against butterfly / multiply specifications over the PASSED nibble tables (that the tables "
       "tabulate the field product is C17). C08_nibble (PSHUFB recipe low[c][x&15]^high[c][x>>4] = c*x) and C08_affine (GF2P8AFFINEQB with the regenerated bit "
       "matrix = c*x) for all 65,536 pairs, C08_count, slot layout; C08_switch_table: the six switch functions regenerated from "
       "galois_gen_switch_amd64.go have exactly the 600 distinct cases, each calling the kernel named after its own shape and "
       "returning the granularity the model assumes. Execution tie (this is where the assembly enters): all 600 "
       "generated kernels run lane-exhaustively (every slot x 256 coefficients x every byte value at every residue mod 64) and on "
       "random matrices/lengths/start offsets/misaligned buffers with 128-byte guard zones; returned count, untouched bytes outside "
       "[start,start+n), unchanged inputs; hand-written multiply/xor kernels under every instruction-set switch for all 256 "
       "coefficients; Leopard GF8/GF16 butterfly/multiply kernels; the nopshufb kernel set. Expected bytes from a first-principles product.",
  note=TB + " Trusted for the kernel theorem: the instruction semantics RSV.Model.Asm.stepInstr and the text parser; both are "
       "cross-checked by the lane-exhaustive execution on this CPU (SSE2..AVX512, GFNI). The decoding of the `_N` skip masks "
       "of the Leopard kernels is taken from the Go wrappers. arm64 / ppc64le kernels cannot be built or run here.",
  design="4/C08"),
 "C09": dict(
  technique="Lean 4 theorems on write-set classes and AllocAligned arithmetic + sentinel-arena diff against the model's write set",
  text="Proof: C09_alloc / C09_alloc_aligned (all shard counts, sizes and all 64 base alignments: requested length, inside the "
       "allocation, pairwise disjoint incl. capacities, 64-aligned), C09_recon_only_missing / C09_recon_in_place_iff / "
       "C09_recon_matches_spec / C09_recon_matches_model (only missing shards are written, in place iff capacity suffices, class u "
       "iff the functional result leaves the shard as it was), Encode/Verify/EncodeIdx/Update frames. Tie: every shard set laid out "
       "as sub-slices of one sentinel arena with random gaps and spare capacity; after each call every byte outside the model's "
       "write set must be unchanged and each shard's class u/w/a must equal the model's; AllocAligned post-conditions on real pointers.",
  note=TB + " Byte-level 'only inside [0,len)' is carried by the arena diff; kernel-level stores by C08's guard zones.",
  design="4/C09"),
 "C10": dict(
  technique="Lean 4 invariant proof over all call histories (cache soundness of the inversion trie) + fresh-vs-long-lived correspondence",
  text="Proof: C10_matrix / C10_fresh / C10_history_independent - for every finite history of Reconstruct/ReconstructData/"
       "ReconstructSome calls on one modelled encoder, with the inversion tree enabled or disabled, every answer equals the "
       "cache-free answer (invariant: every trie entry under the key of a presence pattern is invert of that pattern's "
       "sub-matrix; trie get/insert laws for strictly increasing keys; the key determines the survivor rows). Tie: histories on "
       "long-lived real encoders (matrix cache on/off, Leopard GF8 locator cache incl. >=64 KiB sets, GF16), every operation "
       "repeated on a fresh encoder; answers and bytes must agree and equal the original data; all ordered pairs of erasure sets "
       "on small configurations.",
  note=TB + " Leopard GF8 locator cache: the KEY is proved injective on erasure sets (C05_bf8_cacheID_injective on the word-level "
       "bit-field model, tied to errorBitfield8.cacheID by the bfkey ops) and the cached VALUE is a function of the erasure set "
       "(C05_errLocs_fn); C10_leo8_cache: for every history and every schedule of callers on one encoder the map stays sound and "
       "each caller holds the locator table of its own erasure set. The sync.Pool work buffers are covered by the scratch-"
       "independence theorems (C04_scratch/C05_scratch) and by the "
       "fresh-vs-long-lived comparison on collision-biased histories (this found and now guards fix f76f5f8). StreamEncoder's "
       "block pool is exercised by C11/C14.",
  design="4/C10"),
 "C11": dict(
  technique="Lean 4 theorem over all schedules of a lock-atomic interleaving model + race-detector stress against a sequential oracle",
  text="Proof: C11_linearizable / C11_matrix / C11_matrix_sound - for every schedule (any interleaving, any number of callers) of "
       "the model in which lookup and insert are atomic (the code holds the RWMutex there), the cache stays sound and each caller "
       "obtains exactly the answer it would get alone; afterwards sequential calls still get cache-free answers. "
       "C10_leo8_cache: the same for the Leopard GF8 error-locator map (a mutex-guarded Go map keyed by cacheID: key proved to "
       "determine the erasure set, value proved a function of the key). Tie: harness "
       "built with -race; N in {2,8,48} goroutines x GOMAXPROCS in {1,4,16} share one encoder per codec / one StreamEncoder, "
       "biased so that many miss and insert the same key at once, plus mixed Encode/Reconstruct callers with 64-256 KiB shards "
       "(internal chunk workers and per-encoder scratch pools shared by callers using different matrices); every answer compared with a sequential fresh-encoder oracle; "
       "readers hash data shards during Encode/Verify; any race report fails the run.",
  note=TB + " Partial by nature: the theorem quantifies over schedules of the MODEL; a data race inside a step (unlocked "
       "access, a kernel reading a buffer another goroutine writes) is only observable by the race detector on sampled "
       "schedules. Go memory model, sync.Pool, sync.RWMutex modelled not verified. Trusted: ThreadSanitizer runtime.",
  design="4/C11"),
 "C12": dict(
  technique="Lean 4 theorems: permutation-invariance of the xor-fold (EncodeIdx) and the delta rule (Update)",
  text="Proof: C12_idx_any_order (for every permutation of deliveries from zeroed parity the result is encodeSpec), "
       "C12_idx_partial / C12_idx_general, C12_update (every subset of changed shards, unchanged ones optionally absent). Tie: "
       "EncodeIdx in all permutations for d<=5 + seeded orders to d=40, Update over all non-empty subsets for d<=6, sizes around "
       "perRound/minSplitSize/code-gen thresholds and option sets, mismatching new-shard sizes must be rejected with guard zones "
       "intact (regression of fix 0ba1869).",
  note=TB + " Default matrix family in the correspondence (kernels are family-independent).",
  design="4/C12"),
 "C13": dict(
  technique="Lean 4 theorems by list arithmetic: modelled Split (with spare capacity) = specification; Join o Split = id",
  text="Proof: C13_split_eq_spec (for every input, (d,p), rounding q, and every amount and content of spare capacity the "
       "modelled Split algorithm equals input++zeros cut into d+p equal shards), C13_shape/C13_perShard (count, equal length, "
       "multiple of q), C13_content/C13_data_shards/C13_parity_zero, C13_join_split, C13_join_prefix and the error cases. Tie: "
       "Split of every length 1..3000 x 13 shapes (incl. p=0, d=1, Leopard GF8/GF16 rounding to 64) x spare capacities "
       "pre-filled with 0xA5, aliasing count, bytes behind the last shard untouched, Encode accepts the result; Join with truncations, nil patterns, all outSize classes. "
       "The per-shard size / total arithmetic of the three Split methods is regenerated from the Go source on every run and proved equal "
       "to the model's (C13f_reedSolomon_sizes, C13f_leopardFF8_sizes, C13f_leopardFF16_sizes).",
  note=TB + " Found and fixed: Join with a negative outSize panicked (fix 33b1873).",
  design="4/C13"),
 "C14": dict(
  technique="Lean 4 induction over the block loop of a stream state machine with an abstract column-local block codec",
  text="Proof: C14_encode / C14_verify / C14_reconstruct - for every stream length L>=1, block size B>=1, sequential or concurrent "
       "writes, and every block codec that is column-local, each parity/fill writer receives exactly what the in-memory call "
       "computes on the whole streams; C14_readFull_clean (no fragmentation parameter exists in the model: ReadFull abstracts it); "
       "C14_split / C14_split_join. Tie: the real StreamEncoder with seeded fragmenting readers (1 byte..full, 0-byte reads, n>0 "
       "with EOF) vs the model instantiated with the GF(2^8) codec: block sizes x lengths around block boundaries x shapes x all "
       "valid/fill assignments of small configurations x sequential/concurrent I/O.",
  note=TB + " io.ReadFull/io.CopyN/io.MultiReader re-modelled from their documented contract; column-locality of the real codec is C03.",
  design="4/C14"),
 "C15": dict(
  technique="Lean 4 theorems on the stream state machine with faulty readers/writers + every (stream, offset, kind) fault on small streams",
  text="Proof: C15_unequal / C15_unequal_verify (success implies all stream lengths equal - wherever the shorter stream ends, incl. "
       "on a block boundary), C15_read_error(_any), C15_write_error_seq/conc, C15_short_write, C15_split_short / "
       "C15_split_surplus, C15_join_* . Tie: every (stream index, byte offset, fault kind in read error / early EOF / surplus / "
       "write error / short write) for Encode, Verify, Reconstruct, Split, Join, sequential and concurrent, compared with the "
       "model incl. the bytes each writer received; independent property-level check that no injected fault is accepted.",
  note=TB + " KNOWN FINDING (known_findings.json): stream Split/Join return the reader's/writer's error unwrapped, not a "
       "StreamReadError/StreamWriteError naming the stream. Not proved: fault propagation through later iterations of Reconstruct.",
  design="4/C15"),
 "C16": dict(
  technique="Lean 4 totality proofs over an API model with explicit bounds-checked indexing (panic outcome) + grammar-based call correspondence",
  text="Proof: C16_*_total - no argument tuple (any shard count, nil/empty/unequal shards, any index, masks of any length or nil, "
       "any integer outSize) reaches the panic outcome of any method model. The model is HONEST about what can panic: besides "
       "the explicit index expressions it evaluates the slice windows of the kernels (codeOob, rsPass1Oob/rsPass2Oob for the two "
       "passes of Reconstruct incl. the regenerate-before-parity control logic of fix 7b8525f, leoReconOob, updateOob) on the "
       "lengths/capacities and the theorems prove those conditions unreachable from the argument checks (hypotheses stated: a "
       "matrix encoder has d > 0 - C16_new_usable; a nil slice has length 0); pre-fix control logic (reconstructSomeOld, "
       "updateOld) is shown to reach panic on the historical inputs. C16_new_total_int / C16_new_usable - for ALL integers "
       "(d,p) with 64-bit wrap and every option New returns an error or an encoder satisfying `usable` (Leopard FFT indices inside "
       "the field); documented error per malformed shape. Tie: ~16,600 calls - grammar-generated ones of every exported method and "
       "New/NewStream over the whole int range, EXHAUSTIVE grids of {nil, empty, empty-with-capacity, right size, other size} "
       "over every argument position of a 2+1 matrix and a 2+2 Leopard encoder for Encode/Verify/Reconstruct/Update/"
       "EncodeIdx, stream calls with failing readers/writers under the watchdog; outcome classes ok/err/panic must agree; 20 s watchdog + goroutine-leak check; "
       "every accepted encoder must Encode, Verify and Reconstruct. shardSize and checkShards - the validation every call starts "
       "with - are regenerated from reedsolomon.go on every run (over shard shapes) and proved equal to the model's for every shard "
       "list and both nilok values (C16f_shardSize, C16f_checkShards); exhaustive ReconstructSome mask grid (every length 0..total+1), "
       "zero-parity shapes, stream Reconstruct/Join argument grids.",
  note=TB + " Hangs and goroutine leaks are measured, not proved. Found and fixed through this check: Join(-1), AllocAligned(-1), "
       "custom matrix with extra rows, shard-count overflow with a custom matrix, Update with zero-length non-nil shards (bd2a6b4, "
       "found under another VERIF_SEED in an unchanged-tree sweep).",
  design="4/C16"),
 "C17": dict(
  technique="Lean 4 kernel evaluation (decide +kernel) of regenerated table literals against shift-and-reduce arithmetic",
  text="Proof: every entry of the seven static GF(2^8) tables regenerated from galois.go on every run (65,536 products, log/exp/inv, "
       "nibble tables, 256 GFNI bit-matrices x 256 operands) equals first-principles arithmetic modulo 0x11D; GF256 is proved a "
       "Field (associativity etc. for all operands by xor-linearity + basis cases). Leopard run-time tables: the Lean model's "
       "initLUTs/initFFTSkew/initMul*LUT (GF8 and GF16) are compared entry by entry with the tables dumped from the running "
       "package; for GF8 the model's log/exp/product/nibble tables are kernel-evaluated and proved to tabulate GF(2^8)/0x11D "
       "under the Cantor map (C17leo_log/exp/mul/mulLog/mul8LUT/field), and the regenerated constants are the published ones. "
       "For GF16 the model's initLUTs is characterised STRUCTURALLY for every entry (C17gf16_log/exp/mulLog: loop invariants of "
       "the LFSR, Cantor-doubling and inversion loops; x is primitive modulo 0x1002D by five kernel-evaluated powers; the 16x16 "
       "Cantor basis is inverted explicitly): log is the discrete logarithm of the Cantor image, exp its inverse, the table "
       "product is pmul 16 0x1002D under the Cantor map; GF65536 is proved a Field (C17gf16_toGF: ring isomorphism); the "
       "per-multiplier lookup tables (C17gf16_mul16LUT, C17gf16_mul256LUT, C17gf16_nibble_compose: Lo/Hi byte tables and the "
       "4x16 SIMD nibble tables compose to the direct product for every multiplier and operand) and the skew table "
       "(skewOK16: logarithms of the LCH twiddle factors) and the Walsh table (errLocs_ok16) are characterised "
       "structurally as well. The FUNCTIONS that read the tables are regenerated too: a Go-subset -> Lean translator "
       "rewrites galAdd/galMultiply/galDivide/galOneOver/galExp, addMod/subMod/mulLog/ceilPow2/fwht2alt (GF8 and GF16), both "
       "isNeeded methods and matrix.go with four generator builders from the current source on every run; C17f_* / C17m_* "
       "prove the regenerated definitions equal the model/specification functions for ALL inputs in the Go types' ranges "
       "(panics included); all of them are also executed next to the model on every run (flag gen=). A construct "
       "outside the subset is rejected and reported as a broken obligation (no-failing-input-found), never guessed. "
       "C17m_Invert: the regenerated matrix.Invert equals the model's Gaussian elimination for every square byte matrix (returns a "
       "two-sided inverse, errSingular iff not invertible); C17m_buildMatrix, C17m_Multiply likewise; C17m_SubMatrix: the regenerated SubMatrix returns exactly the requested window for every window and size; C17m_SwapRows(_invalid): SwapRows exchanges exactly the two rows, or reports errInvalidRowSize leaving the matrix untouched.",
  note=TB + " Faithfulness of the Go-subset translator (integer widths, wrap-around, value-semantics slices, panics) is trusted; it is "
       "cross-checked by running the package's own functions on the same inputs. Leopard tables of the running package are tied to the model by executed comparison (complete for GF8 and for GF16 log/exp/skew/walsh; "
       "sampled log_m for the 33M-entry GF16 product tables); GF2P8AFFINEQB semantics as in the Intel SDM.",
  design="4/C17"),
}

NOT_YET = {}
ALL = [f"C{i:02d}" for i in range(1, 18)]

def main():
    checks = []
    for pid in ALL:
        if pid not in CHECKS:
            continue
        c = CHECKS[pid]
        checks.append({
            "property_id": pid,
            "quick_cmd": f"./check {pid} --tier quick",
            "thorough_cmd": f"./check {pid} --tier thorough",
            "evidence_file": f"/verif/evidence/{pid}.json",
            "replay_cmd_template": f"./check {pid} --replay {{path}}",
            "engine": "lean4+correspondence",
            "level_claimed": {"category": "proof", "text": c["text"], "design_ref": c["design"]},
            "level_note": c["note"],
            "technique": c["technique"],
        })
    na = [{"property_id": p, "reason": NOT_YET.get(p, "check not built yet in this session (design in DESIGN.md section 4); not claimed")}
          for p in ALL if p not in CHECKS]
    m = {
        "version": 1,
        "setup_cmd": "./setup.sh",
        "hooks": {
            "guard": "verif",
            "enable": "go build -tags verif (the harness in /verif/harness imports /repo through a replace directive)",
            "baseline_off_cmd": "cd /repo && GOFLAGS=-mod=mod go test -json -vet=off -count=1 -timeout 25m ./...",
            "source_commits": ["45e309d", "4628913", "167efa4", "309d611"],
            "add_only": True,
        },
        "engines": [
            {"name": "lean4+correspondence", "path": "/verif/check",
             "serves_properties": [c["property_id"] for c in checks],
             "kind_free_text": "Lean 4 theorems about an executable model (lean/RSV), tied to /repo by a go/ast translator "
                               "(tools/extract -> RSV/Gen) and by a line-protocol correspondence between the Go harness "
                               "(harness/, -tags verif) and the compiled Lean driver (lean/Driver.lean)"}],
        "checks": checks,
        "not_applicable": na,
        "notes": "fix: commits in /repo: 7b8525f f76f5f8 0ba1869 06bbac9 f2ee15c 674193f d4cd075 33b1873 eef0134 40188d9 a37e7db 6e0b732 bd2a6b4 (see known_findings.json, DESIGN.md section 10.3); seeded changes and which checks catch them: /verif/seeded/*/meta.json, DESIGN.md section 10.7",
    }
    json.dump(m, open(os.path.join(V, "MANIFEST.json"), "w"), indent=1)
    print("MANIFEST.json:", len(checks), "checks,", len(na), "not claimed")

if __name__ == "__main__":
    main()
