#!/usr/bin/env python3
"""Regenerates /verif/MANIFEST.json from the table below (edit here, not the JSON)."""
import json, os
V = os.path.dirname(os.path.dirname(os.path.abspath(__file__)))

TB = ("Trusted: Lean 4.33.0 kernel, axioms propext/Classical.choice/Quot.sound only (audited by #print axioms on every "
      "property theorem; no sorry/native_decide/bv_decide), Mathlib v4.33.0 as compiled, the go/ast translator "
      "tools/extract (Tie A), the Go harness + compiled Lean driver and their op generators (Tie B).")

CHECKS = {
 "C01": dict(
  technique="Lean 4 theorem (generalised-Cauchy MDS via polynomial root counting) + proved certificate run on extracted generators",
  text="Proof: C01_cauchy, C01_xor, C01_default quantify over all (d,p) with d+p<=256 and all survivor sets (no enumeration): "
       "a degree<d polynomial with d roots is zero; the default generator is proved equal to the Lagrange matrix through the "
       "proved Gaussian elimination. Jerasure is decided per configuration by running the proved checker "
       "(C01_certGC: certGC=true -> MDS) in the compiled driver. Tie: generators extracted from the real encoder (Encode of unit "
       "vectors) must equal the model's generators.",
  note=TB + " Modelled not verified: that Encode applies this generator column-wise (C03). Jerasure closed form not proved "
       "in general (certificate per explored configuration). Leopard generators: see C04.",
  design="4/C01"),
 "C02": dict(
  technique="Lean 4 theorem: the modelled reconstruct algorithm equals its specification for every MDS generator (via proved Gaussian elimination)",
  text="Proof: C02_mds - for every MDS generator over any field, every presence pattern, mode (Reconstruct / ReconstructData / "
       "ReconstructSome with either mask length), shard length and content, the modelled algorithm (first d present rows, "
       "invert, decode, re-encode requested parity) returns exactly the specification: ErrTooFewShards iff fewer than d present, "
       "otherwise every filled shard is the original and present shards are untouched. C02_never_wrong / C02_any: for ANY "
       "generator (PAR1, custom) success never carries wrong bytes. Tie: op-level correspondence of the real Reconstruct* calls "
       "against L0 (and L1 for d<=24), exhaustive over erasure sets for small configurations.",
  note=TB + " Modelled: nil/empty/empty-with-capacity all denote 'missing' (exercised by correspondence); the inversion cache "
       "(C10) and the SIMD/chunked evaluation of encodeRow (C03/C07/C08) are assumed here.",
  design="4/C02"),
 "C03": dict(
  technique="Lean 4 theorems: closed forms of every generator family + column-local linear encode; tables by kernel evaluation",
  text="Proof: for all (d,p): default generator = Lagrange/Backblaze matrix (C03_default_entry, uniqueness C03_default_unique), "
       "Cauchy = 1/(i xor j), PAR1 = (c+1)^r, XOR = 1, top square = identity; Encode's parity byte k = sum_c A[r][c]*data[c][k] "
       "depends only on column k (C03_local), is linear (C03_linear), data untouched. Tie: generators of all six options through "
       "Encode of unit vectors, and Encode on seeded data around every dispatch threshold, option sets and tails 0..63, against "
       "encodeSpec evaluated with shift-and-reduce products.",
  note=TB + " The dispatch (which kernel covers which byte range) is exercised by correspondence here and modelled in C07; "
       "assembly kernels are tied by execution (C08).",
  design="4/C03"),
 "C06": dict(
  technique="Lean 4 theorems: Verify-iff, single-byte flip detection from non-zero generator entries of MDS matrices",
  text="Proof: C06_iff, C06_flip_parity, C06_flip_data with C06_mds_entry_ne_zero (every MDS generator has no zero entry, so any "
       "single byte change in any shard at any offset is detected), excluded points p=0 and zero columns stated as theorems. Tie: "
       "Verify on encoded sets with every (shard, offset) flipped for short shards (all SIMD tails) and boundary/random offsets "
       "of large shards, all 255 deltas; shards hashed before/after.",
  note=TB + " Matrix codec only in this check; Leopard and stream Verify are exercised in C04/C14.",
  design="4/C06"),
 "C17": dict(
  technique="Lean 4 kernel evaluation (decide +kernel) of regenerated table literals against shift-and-reduce arithmetic",
  text="Proof: every entry of the seven static GF(2^8) tables regenerated from galois.go on every run (65,536 products, log/exp/inv, "
       "nibble tables, 256 GFNI bit-matrices x 256 operands) equals first-principles arithmetic modulo 0x11D; GF256 is proved a "
       "Field (associativity etc. for all operands by xor-linearity + basis cases). Leopard run-time tables: the Lean model's "
       "initLUTs/initFFTSkew/initMul*LUT (GF8 and GF16) are compared entry by entry with the tables dumped from the running package.",
  note=TB + " Leopard tables are tied by executed comparison with the model (complete for GF8 and for GF16 log/exp/skew/walsh; "
       "sampled log_m for the 33M-entry GF16 product tables); GF2P8AFFINEQB semantics as in the Intel SDM.",
  design="4/C17"),
}

NOT_YET = {}
ALL = [f"C{i:02d}" for i in range(1, 18)]

def main():
    checks = []
    for pid in ALL:
        if pid not in CHECKS:
            continue
        c = CHECKS[pid]
        checks.append({
            "property_id": pid,
            "quick_cmd": f"./check {pid} --tier quick",
            "thorough_cmd": f"./check {pid} --tier thorough",
            "evidence_file": f"/verif/evidence/{pid}.json",
            "replay_cmd_template": f"./check {pid} --replay {{path}}",
            "engine": "lean4+correspondence",
            "level_claimed": {"category": "proof", "text": c["text"], "design_ref": c["design"]},
            "level_note": c["note"],
            "technique": c["technique"],
        })
    na = [{"property_id": p, "reason": NOT_YET.get(p, "check not built yet in this session (design in DESIGN.md section 4); not claimed")}
          for p in ALL if p not in CHECKS]
    m = {
        "version": 1,
        "setup_cmd": "./setup.sh",
        "hooks": {
            "guard": "verif",
            "enable": "go build -tags verif (the harness in /verif/harness imports /repo through a replace directive)",
            "baseline_off_cmd": "cd /repo && GOFLAGS=-mod=mod go test -json -vet=off -count=1 -timeout 25m ./...",
            "source_commits": ["45e309d"],
            "add_only": True,
        },
        "engines": [
            {"name": "lean4+correspondence", "path": "/verif/check",
             "serves_properties": [c["property_id"] for c in checks],
             "kind_free_text": "Lean 4 theorems about an executable model (lean/RSV), tied to /repo by a go/ast translator "
                               "(tools/extract -> RSV/Gen) and by a line-protocol correspondence between the Go harness "
                               "(harness/, -tags verif) and the compiled Lean driver (lean/Driver.lean)"}],
        "checks": checks,
        "not_applicable": na,
        "notes": "fix: commits in /repo: 7b8525f f76f5f8 0ba1869 06bbac9 f2ee15c 674193f d4cd075 (see known_findings.json, DESIGN.md section 7)",
    }
    json.dump(m, open(os.path.join(V, "MANIFEST.json"), "w"), indent=1)
    print("MANIFEST.json:", len(checks), "checks,", len(na), "not claimed")

if __name__ == "__main__":
    main()
