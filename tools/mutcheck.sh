#!/bin/sh
# usage: tools/mutcheck.sh <patch.diff> <Cxx> [<Cyy> …]
# applies a seeded change to /repo, runs the given checks (quick tier), undoes the change straight afterwards.
set -u
P="$(realpath "$1")"; shift
cd /verif
git -C /repo apply "$P" || { echo "patch does not apply"; exit 3; }
for c in "$@"; do
  echo "=== $c with $(basename $(dirname $P))"
  timeout 2400 ./check "$c" --tier quick 2>&1 | grep -E "VIOLATION|KNOWN-FINDING|broken obligation|quick:|CHECK-BROKEN" | cut -c1-260
done
git -C /repo checkout -- .
git -C /repo status --short | grep -v '^??' | head -3
