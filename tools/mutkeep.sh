#!/bin/sh
# usage: tools/mutkeep.sh <worktree> <seeded-name>
# confirm a seeded change living (uncommitted) in a scratch worktree — build+vet clean, demo fails with the change and passes
# without it — and store it as seeded/<name>/{patch.diff,mutdemo_test.go,MUTATION.md}
# (no `git stash`: the stash is shared by all worktrees of a repository)
D="$1"; N="$2"
export GOFLAGS=-mod=mod GOPROXY=off GOSUMDB=off GOTOOLCHAIN=local
mkdir -p /tmp/p /verif/seeded/$N
cd "$D" || exit 2
git diff > /verif/seeded/$N/patch.diff
go build ./... && go vet . >/dev/null 2>&1 && echo "build+vet ok" || echo "build/vet FAILED"
go test -run '^TestMutDemo$' -count=1 . > /tmp/p/mk_$N.with 2>&1; echo "demo WITH change: exit $? ($(tail -1 /tmp/p/mk_$N.with | cut -c1-80))"
git apply -R /verif/seeded/$N/patch.diff
go test -run '^TestMutDemo$' -count=1 . > /tmp/p/mk_$N.without 2>&1; echo "demo WITHOUT change: exit $? ($(tail -1 /tmp/p/mk_$N.without | cut -c1-80))"
git apply /verif/seeded/$N/patch.diff
cp mutdemo_test.go MUTATION.md /verif/seeded/$N/ 2>/dev/null
git status --short | head -5
wc -l /verif/seeded/$N/patch.diff
