#!/bin/sh
# usage: tools/mutregress.sh [name …] — re-run, for every stored seeded change (or the named ones), the first check recorded
# in its meta.json "caught_by" (quick tier) with the change applied to /repo (undone straight afterwards); prints one line
# per change: CAUGHT / MISSED / NOAPPLY.  The extractor is re-run on the clean tree at the end.
cd /verif
NAMES="$@"
[ -z "$NAMES" ] && NAMES=$(ls seeded)
for n in $NAMES; do
  P=/verif/seeded/$n/patch.diff
  [ -f "$P" ] || continue
  C=$(python3 -c "import json;print(json.load(open('/verif/seeded/$n/meta.json'))['caught_by'][0].split()[0])" 2>/dev/null)
  [ -z "$C" ] && { echo "$n NOMETA"; continue; }
  if ! git -C /repo apply "$P" 2>/dev/null; then echo "$n NOAPPLY"; continue; fi
  timeout 2400 ./check "$C" --tier quick > /tmp/p/regress_$n.log 2>&1
  rc=$?
  git -C /repo checkout -- .
  if [ $rc -eq 1 ] && grep -q "VIOLATION property=$C" /tmp/p/regress_$n.log; then echo "$n $C CAUGHT"; else echo "$n $C MISSED rc=$rc"; fi
done
python3 -c "
import sys; sys.path.insert(0,'/verif')
from vlib import common as C
print('extractor on clean tree:', C.run_extract(), C.TRANSLATOR_PROBLEM)"
