#!/bin/sh
# usage: tools/mutsuite.sh Cxx [Cyy …] — full existing suite in each mutant's scratch worktree, change applied, demo skipped
export GOFLAGS=-mod=mod GOPROXY=off GOSUMDB=off GOTOOLCHAIN=local
for C in "$@"; do
  cd /tmp/mut_$C || continue
  go test -count=1 -timeout 40m -skip '^TestMutDemo$' ./... > /tmp/p/suite_$C.log 2>&1
  echo "$C exit=$? $(grep -E '^(ok|FAIL|---)' /tmp/p/suite_$C.log | head -3 | tr '\n' ' ')" >> /tmp/p/suite_summary.log
done
