#!/bin/sh
# usage: tools/mutsuite2.sh <worktree-prefix> Cxx [Cyy …] — full existing suite in each scratch worktree <prefix>Cxx with its
# seeded change applied (the demo test is skipped); one line per worktree is appended to /tmp/p/suite2_summary.log
export GOFLAGS=-mod=mod GOPROXY=off GOSUMDB=off GOTOOLCHAIN=local
PFX="$1"; shift
for C in "$@"; do
  cd ${PFX}$C || continue
  go test -count=1 -timeout 40m -skip '^TestMutDemo$' ./... > /tmp/p/suite2_$C.log 2>&1
  echo "$C exit=$? $(grep -E '^(ok|FAIL|---)' /tmp/p/suite2_$C.log | head -3 | tr '\n' ' ')" >> /tmp/p/suite2_summary.log
done
