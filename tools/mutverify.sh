#!/bin/sh
# usage: tools/mutverify.sh <Cxx>   — confirm a seeded change in its scratch worktree /tmp/mut_Cxx:
# demo fails with the change, passes without; then (in background log) the full existing suite with the change.
C="$1"; D=/tmp/mut_$C
export GOFLAGS=-mod=mod GOPROXY=off GOSUMDB=off GOTOOLCHAIN=local
cd $D || exit 2
go build ./... && go vet . >/dev/null 2>&1 && echo "build+vet ok"
go test -run TestMutDemo -count=1 . > /tmp/p/mv_$C.with 2>&1; echo "demo WITH change: exit $? ($(tail -1 /tmp/p/mv_$C.with | cut -c1-80))"
git stash -q
go test -run TestMutDemo -count=1 . > /tmp/p/mv_$C.without 2>&1; echo "demo WITHOUT change: exit $? ($(tail -1 /tmp/p/mv_$C.without | cut -c1-80))"
git stash pop -q
git status --short | grep -v '^??' | head -3
