#!/bin/sh
# run every registered check once on the current tree (quick tier by default)
cd /verif
T="${1:-quick}"
for c in $(python3 -c "import json;print(' '.join(x['property_id'] for x in json.load(open('MANIFEST.json'))['checks']))"); do
  timeout 7200 ./check "$c" --tier "$T" 2>&1 | grep -E "VIOLATION|KNOWN-FINDING|quick:|thorough:|CHECK-BROKEN|Traceback" | cut -c1-220
done
