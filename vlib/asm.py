"""Canonical text of the generated amd64 kernels of /repo (galois_gen_amd64.s) for the Lean assembly checker.

One kernel = `<name> <family> <xor 0|1> <inputs> <outputs> | instr ; instr ; …` — the function body verbatim with comments and
blank lines dropped, the XOR3WAY macro expanded as the non-GOAMD64_v4 build does (two VPXOR), labels kept as `name:`."""
import os, re

REPO = os.environ.get("VERIF_REPO", "/repo")
NAME = re.compile(r"^TEXT ·(mul(AvxTwo|GFNI|AvxGFNI)_(\d+)x(\d+)(_64)?(Xor)?)\(SB\)")
FAM = {"AvxTwo": "avx2", "GFNI": "gfni", "AvxGFNI": "avxgfni"}


def kernels(path=None):
    path = path or os.path.join(REPO, "galois_gen_amd64.s")
    out, cur, hdr = [], None, None
    for raw in open(path):
        line = raw.split("//")[0].rstrip()
        m = NAME.match(line)
        if m:
            cur, hdr = [], (m.group(1), FAM[m.group(2)], 1 if m.group(6) else 0, int(m.group(3)), int(m.group(4)))
            continue
        if cur is None or not line.strip():
            continue
        if line.startswith("TEXT "):
            cur = None
            continue
        t = " ".join(line.split())
        mm = re.match(r"^XOR3WAY\(\s*\S+,\s*(\S+),\s*(\S+),\s*(\S+)\)$", t)
        if mm:
            a, b, dst = mm.group(1), mm.group(2), mm.group(3)
            cur += [f"VPXOR {a}, {dst}, {dst}", f"VPXOR {b}, {dst}, {dst}"]
        else:
            cur.append(t)
        if t == "RET":
            out.append((hdr, cur))
            cur = None
    return out


def lines(path=None):
    return [f"{h[0]} {h[1]} {h[2]} {h[3]} {h[4]} | " + " ; ".join(body) for (h, body) in kernels(path)]



# ---- the remaining amd64 kernels: Leopard butterflies / multiplies, xor slices, hand-written galMul* ------------------------------
# One kernel = `<name> <kind> <isa> <flag> <num> | instr ; …`  kind: xor | galmul | dit28 | dit48 | dit2 | dit4 | mulgf16;
# isa: sse2 | ssse3 | avx2 | avx512 | gfni; flag: 1 = Xor variant (galmul) / inverse transform (butterflies); num: bytes per
# iteration (xor, galmul) or the `_N` skip mask (dit48, dit4).
import sys
TEXT2 = re.compile(r"^TEXT ·(\w+)\(SB\)")

def classify2(name):
    m = re.match(r"^(sSE2|avx2)XorSlice(_64)?$", name)
    if m: return ("xor", "sse2" if m.group(1) == "sSE2" else "avx2", 0, 64 if m.group(2) else 16)
    m = re.match(r"^galMul(SSSE3|AVX2)(Xor)?(_64)?$", name)
    if m:
        isa = m.group(1).lower()
        return ("galmul", isa, 1 if m.group(2) else 0, 64 if m.group(3) else (32 if isa == "avx2" else 16))
    m = re.match(r"^(i?)fftDIT28_avx2$", name)
    if m: return ("dit28", "avx2", 1 if m.group(1) else 0, 0)
    m = re.match(r"^(i?)fftDIT48_(avx2|gfni)_(\d)$", name)
    if m: return ("dit48", m.group(2), 1 if m.group(1) else 0, int(m.group(3)))
    m = re.match(r"^(i?)fftDIT2_(avx2|ssse3)$", name)
    if m: return ("dit2", m.group(2), 1 if m.group(1) else 0, 0)
    m = re.match(r"^(i?)fftDIT4_(avx2|avx512)_(\d)$", name)
    if m: return ("dit4", m.group(2), 1 if m.group(1) else 0, int(m.group(3)))
    m = re.match(r"^mulgf16_(avx2|ssse3)$", name)
    if m: return ("mulgf16", m.group(1), 0, 0)
    return None

def kernels2(path):
    out, cur, hdr = [], None, None
    for raw in open(path):
        line = raw.split("//")[0].rstrip()
        m = TEXT2.match(line)
        if m:
            c = classify2(m.group(1))
            cur, hdr = ([], (m.group(1),) + c) if c else (None, None)
            continue
        if cur is None or not line.strip():
            continue
        t = " ".join(line.split())
        mm = re.match(r"^XOR3WAY\(\s*\S+,\s*(\S+),\s*(\S+),\s*(\S+)\)$", t)
        if mm:
            a, b, dst = mm.group(1), mm.group(2), mm.group(3)
            cur += [f"VPXOR {a}, {dst}, {dst}", f"VPXOR {b}, {dst}, {dst}"]
        else:
            cur.append(t)
        if t == "RET":
            out.append((hdr, cur))
            cur = None
    return out

def lines2(paths=None):
    paths = paths or [os.path.join(REPO, "galois_gen_amd64.s"), os.path.join(REPO, "galois_amd64.s")]
    return [" ".join(str(x) for x in h) + " | " + " ; ".join(body) for p in paths for (h, body) in kernels2(p)]



if __name__ == "__main__":
    for l in lines() + lines2():
        print(l)
