"""Canonical text of the generated amd64 kernels of /repo (galois_gen_amd64.s) for the Lean assembly checker.

One kernel = `<name> <family> <xor 0|1> <inputs> <outputs> | instr ; instr ; …` — the function body verbatim with comments and
blank lines dropped, the XOR3WAY macro expanded as the non-GOAMD64_v4 build does (two VPXOR), labels kept as `name:`."""
import os, re

REPO = os.environ.get("VERIF_REPO", "/repo")
NAME = re.compile(r"^TEXT ·(mul(AvxTwo|GFNI|AvxGFNI)_(\d+)x(\d+)(_64)?(Xor)?)\(SB\)")
FAM = {"AvxTwo": "avx2", "GFNI": "gfni", "AvxGFNI": "avxgfni"}


def kernels(path=None):
    path = path or os.path.join(REPO, "galois_gen_amd64.s")
    out, cur, hdr = [], None, None
    for raw in open(path):
        line = raw.split("//")[0].rstrip()
        m = NAME.match(line)
        if m:
            cur, hdr = [], (m.group(1), FAM[m.group(2)], 1 if m.group(6) else 0, int(m.group(3)), int(m.group(4)))
            continue
        if cur is None or not line.strip():
            continue
        if line.startswith("TEXT "):
            cur = None
            continue
        t = " ".join(line.split())
        mm = re.match(r"^XOR3WAY\(\s*\S+,\s*(\S+),\s*(\S+),\s*(\S+)\)$", t)
        if mm:
            a, b, dst = mm.group(1), mm.group(2), mm.group(3)
            cur += [f"VPXOR {a}, {dst}, {dst}", f"VPXOR {b}, {dst}, {dst}"]
        else:
            cur.append(t)
        if t == "RET":
            out.append((hdr, cur))
            cur = None
    return out


def lines(path=None):
    return [f"{h[0]} {h[1]} {h[2]} {h[3]} {h[4]} | " + " ; ".join(body) for (h, body) in kernels(path)]


if __name__ == "__main__":
    for l in lines():
        print(l)
