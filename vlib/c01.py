"""C01 — any d of the d+p shards determine the data (MDS) in every configuration."""
from . import common as C

PROP = "C01"
LEAN_MODULE = "RSV.Props.C01all"
RULE = ("proof: C01_cauchy / C01_xor / C01_default hold for ALL (d,p) with d+p<=256 and all survivor sets at once "
        "(polynomial argument); Jerasure and Leopard are decided per configuration by the proved certificate "
        "(C01_certGC / C01_leo8_cert / C01_leo16_cert: certificate = true -> MDS) run by the compiled driver on the generator; correspondence: the generator "
        "extracted from the real encoder through Encode of unit vectors must equal the model's generator, for which "
        "the certificate is evaluated.  A case = one (family,d,p); non-trivial = d>=2 and p>=2 (or the xor family)")
ASSUMPTIONS = ["Encode applies the extracted generator column-wise to arbitrary data (that is C03/C04)",
               "FNV-1a 64-bit hashes stand for matrices larger than 64 entries"]
TRUSTED = ["certificate evaluation is compiled Lean (not kernel-reduced) for the per-configuration families"]

FAMS = ["default", "cauchy", "jerasure"]


def gen_ops(tier, rng):
    ops = []
    seen = set()

    def add(f, d, p, cat=None, force=False):
        if (f, d, p) in seen or d < 1 or p < 1 or d + p > 256:
            return
        # the model's Jerasure builder rebuilds a total×d matrix three times per column
        if tier == "quick" and f == "jerasure" and d * d * (d + p) > 400_000 and not force:
            return
        seen.add((f, d, p))
        dump = " dump" if d * p <= 64 else ""
        ops.append((f"gen {f} {d} {p}{dump}", {"cat": cat or f, "fam": f, "d": d, "p": p}))

    for f in FAMS:
        for d in range(1, 9):
            for p in range(1, 9):
                add(f, d, p)
        step = 8 if tier == "quick" else 1
        for d in range(1, 256, step):      # the full-width configurations d + p = 256
            add(f, d, 256 - d)
        add(f, 255, 1, force=True), add(f, 1, 255), add(f, 128, 128, force=True), add(f, 200, 56), add(f, 10, 4), add(f, 17, 3)
        n = 120 if tier == "quick" else 1500
        for _ in range(n):
            d = rng.randint(1, 255)
            p = rng.randint(1, 256 - d)
            if tier == "quick" and d * d * p > 3_000_000:
                p = max(1, 3_000_000 // (d * d))
            add(f, d, p)
    for d in (range(1, 256, 5) if tier == "quick" else range(1, 256)):
        add("xor", d, 1)
    # option lists with several matrix options: the last one decides which code (and hence whether it is MDS) is built
    for combo in ["par1+jerasure", "par1+cauchy", "cauchy+jerasure", "jerasure+cauchy", "par1+jerasure+cauchy", "par1+cauchy+jerasure"]:
        for (d, p) in [(4, 4), (10, 4), (17, 3)]:
            ops.append((f"gen {combo} {d} {p}" + (" dump" if d * p <= 64 else ""), {"cat": "option-order", "fam": combo.split("+")[-1], "d": d, "p": p}))
    if tier == "thorough":
        for f in FAMS:
            for d in range(1, 41):
                for p in range(1, 41):
                    add(f, d, p)
    return ops + leo_ops(tier, rng, seen)


def leo_ops(tier, rng, seen):
    from .c04 import admissible
    ops = []
    pairs = [(d, p) for d in range(1, 256) for p in range(1, 256) if admissible(8, d, p)]
    if tier == "quick":
        keep = [(d, p) for (d, p) in pairs if d <= 5 and p <= 5]
        keep += rng.sample(pairs, 200)
        pairs = sorted(set(keep))
    for (d, p) in pairs:
        ops.append((f"gen leo8 {d} {p}" + (" dump" if d * p <= 64 else ""), {"cat": "leo8", "fam": "leo8", "d": d, "p": p}))
    extra16 = [(rng.randint(2, 100), rng.randint(2, 50)) for _ in range(20 if tier == "quick" else 400)]
    if tier == "thorough":
        extra16 += [(d, p) for d in range(1, 13) for p in range(1, 13)] + [(1000, 64), (2000, 30), (40, 1000), (65000, 2), (3, 400)]
    for (d, p) in [(1, 1), (2, 2), (3, 2), (5, 3), (8, 8), (10, 4), (257, 3), (300, 40), (254, 2), (2, 254), (1, 300)] + extra16:
        ops.append((f"gen leo16 {d} {p}", {"cat": "leo16", "fam": "leo16", "d": d, "p": p}))
    # the premise of the general Leopard theorems (C04_leo8/16_encode_all: the MODEL's tables carry the LCH code for every
    # configuration) is that the running package holds the model's tables: every entry of log / exp / skew, both fields
    for t in ["log", "exp", "skew"]:
        ops.append((f"tab leo8 {t} 0", {"cat": "tables-leo8", "fam": "tab", "d": 2, "p": 2}))
        for blk in range(256):
            ops.append((f"tab leo16 {t} {blk}", {"cat": "tables-leo16", "fam": "tab", "d": 2, "p": 2}))
    return ops


def flag_check(line, meta, flags):
    if meta.get("fam") == "tab":
        return None
    if meta.get("fam") == "leo16":
        # GF(2^16): the proved certificate (C01_leo16_cert over the proved field GF65536) where the generator is small
        # enough to run it ('-' above 400,000 entries), and the Lagrange closed form (l0)
        if flags.get("cert") == "0":
            return "GF(2^16) certificate rejected the generator: not shown to be MDS"
        return "L1 schedule disagrees with the Lagrange closed form" if flags.get("l0") == "0" else None
    if flags.get("cert") != "1":
        return "certificate rejected the generator: not shown to be MDS"
    if flags.get("l0") == "0":
        return "L1 builder disagrees with the L0 closed form"
    return None


def execute(ops, ctx):
    def key(line, meta, g):
        if not g or not g.startswith("ok"):
            return None
        if meta.get("fam") == "xor" or (meta.get("d", 0) >= 2 and meta.get("p", 0) >= 2):
            return line
        return None
    res = C.execute_diff(ops, ctx, key, flag_check)
    # property-level decision for disagreements: is the implementation's matrix still MDS?
    final = []
    for mm in res["mismatches"]:
        f = mm["ops"][0].split()
        if f[0] == "tab":
            # a Leopard table of the package differs from the model's: the general theorems no longer speak about this
            # code; look for a configuration that lost the MDS property through the public API
            mm["kind"] = "leopard-table-differs"
            fam = f[1]
            for (d, p) in ([(254, 2), (253, 2), (252, 4), (128, 128), (200, 50)] if fam == "leo8" else [(65532, 4), (65534, 2), (65528, 8)]):
                s = C.run_ops(ctx["harness"], [f"mdssearch {fam} {d} {p} {2000 if ctx['tier']=='quick' else 50000}"], jobs=1)[0]
                if s and s.startswith("unrecoverable"):
                    mm["kind"] = "unrecoverable-loss"
                    mm["ops"] = [f"mdssearch {fam} {d} {p} 2000"]
                    mm["why"] = s
                    break
            final.append(mm)
            continue
        fam, d, p = f[1], int(f[2]), int(f[3])
        s = C.run_ops(ctx["harness"], [f"mdssearch {fam} {d} {p} {2000 if ctx['tier']=='quick' else 50000}"], jobs=1)[0]
        if s and s.startswith("unrecoverable"):
            mm["kind"] = "unrecoverable-loss"
            mm["ops"] = [f"mdssearch {fam} {d} {p} 2000"]
            mm["why"] = s
            final.append(mm)
            continue
        gm = C.run_ops(ctx["harness"], [f"gen {fam} {d} {p} dump"], jobs=1)[0]
        if mm["kind"] == "go-vs-model" and gm and gm.startswith("ok ") and fam not in ("leo8", "leo16"):
            cert = C.run_ops(ctx["driver"], [f"certm {d} {p} {gm.split()[1]}"], jobs=1)[0]
            if cert == "ok cert=1":
                res.setdefault("notes", []).append(f"MODEL-DRIFT {fam} {d}+{p}: implementation's generator differs from the "
                                                   "model but carries a valid certificate (still MDS)")
                continue
        mm["why"] = mm.get("why", "") + " ; no unrecoverable loss found within budget: " + str(s)
        final.append(mm)
    res["mismatches"] = final
    return res
