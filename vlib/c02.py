"""C02 — Reconstruct restores every erased shard bit-exactly (GF(2^8) matrix codec)."""
from . import common as C
from .gens import *

PROP = "C02"
LEAN_MODULE = "RSV.Props.C02all"
RULE = ("proof: C02_mds (for every MDS generator, every erasure pattern, mode, shard length and content, reconstruct = the "
        "specification reconSpec), C02_never_wrong / C02_any (any generator: success never carries wrong bytes), C02_too_few_iff; "
        "through the proved Gaussian elimination (invert_sound/complete). Correspondence: Go Reconstruct/ReconstructData/"
        "ReconstructSome vs the L0 specification (and vs the L1 algorithm for d<=24) on the same seeded data; a case = one op line "
        "(family, options, d, p, size, mode, erasure set, required mask, encoding of 'missing'); non-trivial = at least one shard missing")
ASSUMPTIONS = ["the inversion cache returns invert of the same sub-matrix (C10)", "SIMD kernels and chunking compute encodeRow (C03/C07/C08)",
               "per-shard FNV-1a 64 hashes stand for shard contents"]
TRUSTED = []


def gen_ops(tier, rng):
    ops = []

    def add(fam, opts, d, p, size, mode, E, req, form, cat):
        seed = rng.randrange(1, 1 << 30)
        ops.append((f"rec {fam} {opts} {d} {p} {size} {seed} {mode} {lst(E)} {lst(req)} {form}",
                    {"cat": cat, "E": len(E), "d": d, "p": p, "mode": mode}))

    lim = 6 if tier == "quick" else 9
    # exhaustive over erasure sets for small configurations
    for d in range(1, lim):
        for p in range(1, lim + 1 - d):
            for E in subsets(d + p, p + 1):
                for mode in ["all", "data"]:
                    add(rng.choice(MDS_FAMS), rng.choice(OPTSETS), d, p, rng.choice(SIZES_SMALL), mode, E, [], rng.choice(["nil", "empty", "cap"]), "exh-" + mode)
    # all required masks for d+p <= 4 (quick) / 5
    mlim = 4 if tier == "quick" else 5
    for d in range(1, mlim):
        for p in range(1, mlim + 1 - d):
            for E in subsets(d + p, p + 1):
                for n, mode in [(d, "someD"), (d + p, "someT")]:
                    for req in subsets(n, n):
                        add("default", rng.choice(OPTSETS), d, p, rng.choice([1, 10, 64, 100]), mode, E, req, rng.choice(["nil", "empty", "cap"]), "exh-" + mode)
    # seeded larger cases
    n = 500 if tier == "quick" else 8000
    for _ in range(n):
        fam = rng.choice(MDS_FAMS + ["default"])
        d = rng.choice([rng.randint(1, 12), rng.randint(1, 40), rng.randint(1, 200)])
        p = rng.randint(1, min(40, 256 - d))
        if fam == "jerasure" and d * d * (d + p) > 1_500_000:
            fam = "cauchy"      # the model's Jerasure builder costs O(d^2 * total) matrix rebuilds
        k = rng.randint(0, p + 2)
        E = sorted(rng.sample(range(d + p), min(k, d + p)))
        size = rng.choice(SIZES_SMALL + SIZES_SMALL + SIZES_MID)
        if d * p * size > 3_000_000:
            size = rng.choice(SIZES_SMALL)
        mode = rng.choice(["all", "all", "data", "someD", "someT"])
        req = []
        if mode.startswith("some"):
            nn = d if mode == "someD" else d + p
            req = sorted(rng.sample(range(nn), rng.randint(0, min(nn, 4))))
            if E and rng.random() < 0.7:
                req = sorted(set(req) | {e for e in E if e < nn and rng.random() < 0.6})
        add(fam, rng.choice(OPTSETS), d, p, size, mode, E, req, rng.choice(["nil", "empty", "cap"]), "seeded-" + mode)
    # xor family
    for _ in range(40 if tier == "quick" else 500):
        d = rng.randint(1, 60)
        E = sorted(rng.sample(range(d + 1), rng.randint(0, 2)))
        add("xor", rng.choice(OPTSETS), d, 1, rng.choice(SIZES_SMALL), rng.choice(["all", "data"]), E, [], "nil", "xor")
    # non-MDS generators: success with right bytes or an error, never wrong data (L1 decides singularity)
    for _ in range(300 if tier == "quick" else 5000):
        fam = rng.choice(["par1", f"custom:{rng.randrange(1, 1000)}"])
        d = rng.randint(1, 12)
        p = rng.randint(1, 8)
        E = sorted(rng.sample(range(d + p), rng.randint(0, min(p + 1, d + p))))
        add(fam, rng.choice(OPTSETS), d, p, rng.choice([1, 8, 33, 64, 100]), rng.choice(["all", "data"]), E, [], "nil", "nonmds")
    # exactly p DATA shards missing (the first pass then has as many outputs as Encode), shards above minSplitSize, every
    # kernel family, few and many goroutines
    for (d, p) in [(4, 2), (10, 4), (5, 3), (2, 1), (10, 1), (3, 3), (10, 10), (11, 2)]:
        for o in ["-", "g=64,ms=1024", "gfni-,avxgfni-", "nosimd", "g=1"]:
            E = sorted(rng.sample(range(d), min(d, p)))
            fam = rng.choice(["default", "cauchy", "jerasure"])
            for mode in ["all", "data"]:
                add(fam, o, d, p, rng.choice([40000 + 17, 65536 + 33, 131072]), mode, E, [], rng.choice(["nil", "empty", "cap"]), "p-data-missing-large")
    # sparse custom generators (about half of the coefficients zero): singular survivor sub-matrices are common, also the 1x1
    # ones of a single data shard; every erasure set of small shapes, both modes, cache on and off
    for seed in range(1, 9 if tier == "quick" else 60):
        for (d, p) in [(1, 1), (1, 2), (1, 3), (2, 2), (2, 3), (3, 2)]:
            for E in subsets(d + p, p):
                if not E:
                    continue
                add(f"sparse:{seed}", rng.choice(["-", "ic-", "nosimd"]), d, p, rng.choice([1, 8, 64]), rng.choice(["all", "data"]), E, [], "nil", "nonmds-sparse")
    # sequences of reconstructions on ONE encoder (the inverted-matrix cache takes part): every answer must still be
    # the original bytes.  Biased towards neighbouring erasure sets visited in both orders.
    from . import c10
    for _ in range(250 if tier == "quick" else 5000):
        fam = rng.choice(MDS_FAMS)
        d = rng.randint(2, 12); p = rng.randint(2, 6); n = d + p
        subs = []
        base = sorted(rng.sample(range(n), rng.randint(2, p)))
        variants = [base, base[:1] + [min(n - 1, x + 1) for x in base[1:]], base[:1] + [max(0, x - 1) for x in base[1:]], base[:-1]]
        variants = [v for v in variants if v == sorted(set(v)) and v]
        for _ in range(rng.randint(3, 8)):
            E = rng.choice(variants) if rng.random() < 0.8 else sorted(rng.sample(range(n), rng.randint(1, p)))
            subs.append(c10.sub_r(rng, d, p, rng.choice([1, 10, 64, 100]), E))
        ops.append((f"hist {fam} {rng.choice(['-', '-', 'nosimd'])} {d} {p} ; " + " ; ".join(subs), {"cat": "sequence", "E": 1}))
    return ops


def corpus_ops():
    # D1a/b/c (fixed by 7b8525f): kept as regression replays
    return [("rec default - 4 3 100 5 someT 1,5 5 nil", {"cat": "corpus", "E": 2}),
            ("rec default nosimd 4 3 10 5 someT 0,5 5 nil", {"cat": "corpus", "E": 2}),
            ("rec default - 4 3 100 5 someD 1,5 1 nil", {"cat": "corpus", "E": 2})]


def flag_check(line, meta, flags):
    if flags.get("l1") == "0":
        return "L1 algorithm disagrees with the L0 specification"
    return None


def execute(ops, ctx):
    def key(line, meta, g):
        return line if meta.get("E", 0) > 0 else None
    res = C.execute_diff(ops, ctx, key, flag_check)
    sing = sum(1 for (l, m) in ops if m.get("cat") == "nonmds")
    res.setdefault("extra", {})["nonmds_cases"] = sing
    return res
