"""C03 — Encode produces exactly the specified GF(2^8) code and leaves data untouched."""
from . import common as C
from .gens import *

PROP = "C03"
LEAN_MODULE = "RSV.Props.C03all"
RULE = ("proof: the generator each option builds is the published closed form for all (d,p) (C03_default_entry: Lagrange/"
        "Backblaze, C03_cauchy_entry 1/(i xor j), C03_par1_entry, C03_xor_entry, top square = identity), encodeSpec is column-local "
        "and linear (C03_local, C03_linear); tables = field (C17). Correspondence: generator identity through Encode of unit "
        "vectors for every family incl. PAR1/custom, and Encode on seeded data around every dispatch threshold vs "
        "encodeSpec evaluated with shift-and-reduce products; data shards hashed before/after. A case = one op line; "
        "non-trivial = p>=1 and size>=1 with a successful encode")
ASSUMPTIONS = ["per-shard FNV-1a 64 hashes stand for shard contents", "the option→path mapping is exercised, not modelled (C07)"]
TRUSTED = []


def gen_ops(tier, rng):
    ops = []
    fams6 = ["default", "cauchy", "jerasure", "par1"]
    # generator identity for every family
    lim = 13 if tier == "quick" else 31
    for f in fams6 + ["custom:7"]:
        for d in range(1, lim):
            for p in range(1, lim):
                if tier == "quick" and (d + p) % 3 and d > 6:
                    continue
                ops.append((f"gen {f} {d} {p}" + (" dump" if d * p <= 64 else ""), {"cat": "gen-" + f.split(":")[0], "p": p}))
    for d in range(1, 40, 3):
        ops.append((f"gen xor {d} 1", {"cat": "gen-xor", "p": 1}))
    # several matrix options in one option list: every matrix option resets the others, the last one decides
    import itertools
    for combo in itertools.permutations(["par1", "jerasure", "cauchy", "default"], 2):
        for (d, p) in [(4, 4), (5, 3), (10, 4)]:
            ops.append((f"gen {'+'.join(combo)} {d} {p} dump", {"cat": "gen-option-order", "p": p}))
    # WithFastOneParityMatrix next to a matrix family, both orders: XOR parity for exactly one parity shard, the family otherwise
    for fam in ["cauchy", "par1", "jerasure", "default"]:
        for combo in [f"{fam}+xor", f"xor+{fam}"]:
            for (d, p) in [(2, 1), (5, 1), (17, 1), (100, 1), (5, 2), (4, 4)]:
                ops.append((f"gen {combo} {d} {p}" + (" dump" if d * p <= 64 else ""), {"cat": "gen-fast-one-parity", "p": p}))
            ops.append((f"enc {combo} - 5 1 1000 {rng.randrange(1, 1<<30)}", {"cat": "enc-fast-one-parity", "p": 1, "size": 1000}))
    # a custom matrix next to WithFastOneParityMatrix with one parity shard: the custom row decides (New tests it first)
    for k in range(4):
        cf = f"custom:{rng.randrange(1, 999)}"
        for combo in [f"{cf}+xor", f"xor+{cf}"]:
            for d in [2, 4, 11]:
                ops.append((f"gen {combo} {d} 1" + (" dump" if d <= 4 else ""), {"cat": "gen-custom-fast-one-parity", "p": 1}))
                ops.append((f"enc {combo} - {d} 1 {rng.choice([31, 1000, 70000])} {rng.randrange(1, 1<<30)}", {"cat": "enc-custom-fast-one-parity", "p": 1, "size": 1000}))
    for combo in itertools.permutations(["par1", "jerasure", "cauchy"], 3):
        ops.append((f"gen {'+'.join(combo)} 4 4 dump", {"cat": "gen-option-order", "p": 4}))
    for _ in range(60 if tier == "quick" else 2000):
        f = rng.choice(fams6 + [f"custom:{rng.randrange(1, 999)}"])
        d = rng.randint(1, 255)
        p = rng.randint(1, 256 - d)
        if f == "jerasure" and d * d * (d + p) > 400_000:
            continue
        ops.append((f"gen {f} {d} {p}", {"cat": "gen-" + f.split(":")[0], "p": p}))
    # encodes
    def enc(f, o, d, p, size, cat):
        ops.append((f"enc {f} {o} {d} {p} {size} {rng.randrange(1, 1 << 30)}", {"cat": cat, "p": p, "size": size}))
    shapes = [(d, p) for d in range(1, 13) for p in range(0, 13)]
    for (d, p) in shapes:
        for _ in range(2 if tier == "quick" else 12):
            enc(rng.choice(fams6) if p else "default", rng.choice(OPTSETS), d, p, rng.choice(SIZES_SMALL + SIZES_MID[:9]), "enc-grid")
    for size in SIZES_SMALL + SIZES_MID:
        for o in (OPTSETS if tier == "thorough" else rng.sample(OPTSETS, 4)):
            d, p = rng.choice([(10, 4), (5, 3), (3, 2), (17, 3), (11, 11), (4, 12), (1, 1), (21, 2)])
            if d * p * size > 6_000_000:
                d, p = 3, 2
            enc(rng.choice(fams6), o, d, p, size, "enc-threshold")
    # every generated-kernel shape (1..10 inputs x 1..10 outputs) with shards well above minSplitSize: the codec calls each
    # kernel on worker windows with a non-zero start offset
    kopts = ["-", "gfni-", "gfni-,avxgfni-"]
    for d in range(1, 11):
        for p in range(1, 11):
            for o in (kopts if tier == "thorough" else [kopts[(d + p) % 3]]):
                enc(rng.choice(["default", "cauchy"]), o, d, p, 40000 + 64 * rng.randint(0, 40) + rng.choice([0, 0, 13]), "enc-kernel-windows")
    # sparse custom matrices (zero coefficients, also in column 0) on every path: the first term of a row must still
    # overwrite stale parity; shapes above and below 10 shards, sizes with tails above and below minSplitSize
    for (d, p) in [(12, 4), (4, 12), (5, 3), (11, 11), (3, 2)]:
        for o in ["-", "gfni-,avxgfni-", "gfni-,avxgfni-,avx2-", "nosimd", "g=1", "gfni-,avxgfni-,ms=2048"]:
            for size in [33, 4097, 9999, 20001, 65537]:
                enc(f"sparse:{rng.randrange(1, 999)}", o, d, p, size, "enc-sparse")
    # block-sparse custom matrices (local parities): whole aligned 10x10 tiles of the coding matrix are zero, also the tile
    # of the FIRST input group, whose kernel call is the one that overwrites stale parity
    for (d, p) in [(20, 12), (12, 4), (25, 11), (11, 21), (31, 5), (10, 11)]:
        for o in ["-", "gfni-,avxgfni-", "g=1", "nosimd", "gfni-,avxgfni-,avx2-"]:
            for size in [64, 100, 1000, 4097, 65537]:
                for _ in range(2 if tier == "quick" else 8):
                    enc(f"blocks:{rng.randrange(1, 9999)}", o, d, p, size, "enc-blocks")
    for tail in range(64):
        enc("default", rng.choice(OPTSETS), 10, 4, 4096 + tail, "enc-tail")
        enc("cauchy", rng.choice(OPTSETS), 3, 11, 1024 + tail, "enc-tail")
    for _ in range(150 if tier == "quick" else 20000):
        d = rng.randint(1, 60)
        p = rng.randint(1, min(30, 256 - d))
        size = rng.choice(SIZES_SMALL + SIZES_MID)
        if d * p * size > 4_000_000:
            size = rng.choice(SIZES_SMALL)
        enc(rng.choice(fams6 + [f"custom:{rng.randrange(1, 99)}"]), rng.choice(OPTSETS), d, p, size, "enc-seeded")
    for size in (SIZES_BIG[:3] if tier == "quick" else SIZES_BIG):
        enc("default", "-", 4, 2, size, "enc-big")
        enc("cauchy", "g=8,ms=1024", 11, 3, size if size < (4 << 20) else (1 << 20) + 65, "enc-big")
    enc("xor", "-", 7, 1, 1000, "enc-xor")
    # per-slice fallback region: more than 10 inputs or outputs, minSplitSize < size < 256 (goroutine pieces of 128..255 bytes)
    for o in ["ms=128", "ms=64,g=4", "ms=1", "ms=128,gfni-,avxgfni-", "ms=130,avx512-"]:
        for (d, p) in [(11, 2), (12, 4), (3, 11), (11, 13), (1, 2), (2, 1)]:
            for size in [129, 160, 200, 255, 256, 300]:
                enc(rng.choice(["default", "cauchy"]), o, d, p, size, "enc-fallback")
    return ops


def flag_check(line, meta, flags):
    if flags.get("m") == "0":
        return "fast table path of the driver disagrees with the generic model definition"
    if flags.get("l0") == "0":
        return "L1 builder disagrees with the L0 closed form"
    return None


def execute(ops, ctx):
    def key(line, meta, g):
        return line if g and g.startswith("ok") and meta.get("p", 0) >= 1 else None
    return C.execute_diff(ops, ctx, key, flag_check)
