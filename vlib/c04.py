"""C04 — Leopard GF8/GF16 Encode equals the specified shortened Reed-Solomon code."""
from . import common as C
from .gens import *

PROP = "C04"
LEAN_MODULE = "RSV.Props.C04all"
RULE = ("proof: the interpreter of butterfly schedules is symbol-local (so any chunking, incl. the 32 KiB work chunks, cannot "
        "change a symbol), xor-linear (so the output on all contents is determined by the unit vectors) and independent of the "
        "initial work contents - for ARBITRARY step lists, hence every (d,p) and size; Leopard's GF(2^8) product is GF(2^8)/0x11D "
        "multiplication under the Cantor map (C17leo_mul), constants regenerated from the Go source. Correspondence: the generator "
        "of every explored configuration, extracted from the real encoder by encoding unit vectors, equals both the schedule model's "
        "generator and the Lagrange closed form over Leopard's field (nodes m..n-1 evaluated at 0..p-1); Encode on seeded data "
        "for sizes 64*k straddling the 32 KiB chunk, forced GF16 for small shard counts, option sets, reused encoders. "
        "A case = one op line; non-trivial = successful op with d>=2")
ASSUMPTIONS = ["that the schedule generators emit the Lin-Chung-Han transform (evaluation/interpolation in the novel basis) is "
               "established per explored configuration by the equality with the Lagrange closed form, not by a general theorem",
               "GF(2^16): xor-linearity of the symbol product is a hypothesis of the linearity theorem (proved for GF(2^8))",
               "SIMD butterflies equal the reference butterflies by C08's execution tie"]
TRUSTED = []


def admissible(bits, d, p):
    order = 1 << bits
    m = 1
    while m < p:
        m *= 2
    return d >= 1 and p >= 1 and d <= order and p <= order and d + m <= order


def gen_ops(tier, rng):
    ops = []
    # GF8 generators: all 21,845 admissible pairs in the thorough tier, a structured sample in the quick tier
    pairs = [(d, p) for d in range(1, 256) for p in range(1, 256) if admissible(8, d, p)]
    if tier == "quick":
        keep = [(d, p) for (d, p) in pairs if d <= 6 and p <= 6]
        keep += [(d, p) for (d, p) in pairs if d + (1 << (p - 1).bit_length() if p > 1 else 1) == 256][::6]
        keep += rng.sample(pairs, 260)
        pairs = sorted(set(keep))
    for (d, p) in pairs:
        dump = " dump" if d * p <= 64 else ""
        ops.append((f"gen leo8 {d} {p}{dump}", {"cat": "gen8", "d": d}))
    g16 = [(1, 1), (2, 1), (1, 2), (3, 2), (5, 3), (8, 8), (10, 4), (17, 3), (255, 1), (256, 1), (200, 56), (257, 3), (300, 200)]
    if tier == "thorough":
        g16 += [(1000, 24), (24, 1000), (4095, 1), (2000, 2000), (1, 4096)] + [(rng.randint(1, 600), rng.randint(1, 300)) for _ in range(100)]
    else:
        g16 += [(rng.randint(1, 120), rng.randint(1, 60)) for _ in range(30)]
    for (d, p) in g16:
        if admissible(16, d, p) and d * d * p < 30_000_000:
            ops.append((f"gen leo16 {d} {p}" + (" dump" if d * p <= 32 else ""), {"cat": "gen16", "d": d}))
    # encodes on seeded data
    sizes = [64, 128, 192, 32704, 32768, 32832, 65536, 98368]
    confs8 = [(1, 1), (2, 1), (3, 2), (5, 3), (8, 8), (10, 4), (20, 12), (100, 30), (200, 40), (17, 3), (4, 60)]
    confs16 = [(2, 1), (5, 3), (8, 8), (10, 4), (300, 20), (20, 300)]
    n = 2 if tier == "quick" else 20
    for fam, confs in (("leo8", confs8), ("leo16", confs16)):
        for (d, p) in confs:
            for size in sizes:
                if d * p * size > (6_000_000 if tier == "quick" else 60_000_000):
                    continue
                for _ in range(n if size < 1000 else 1):
                    ops.append((f"enc {fam} {rng.choice(['-', 'nosimd', 'avx2-', 'avx512-,gfni-', 'ssse3-,avx2-'])} {d} {p} {size} {rng.randrange(1, 1<<30)}",
                                {"cat": "enc-" + fam, "d": d}))
    for _ in range(80 if tier == "quick" else 3000):
        fam = rng.choice(["leo8", "leo16"])
        d = rng.randint(1, 60)
        p = rng.randint(1, 40)
        if not admissible(8 if fam == "leo8" else 16, d, p):
            continue
        size = 64 * rng.randint(1, 6)
        ops.append((f"enc {fam} {rng.choice(OPTSETS)} {d} {p} {size} {rng.randrange(1, 1<<30)}", {"cat": "enc-seeded", "d": d}))
    # invalid sizes are rejected
    for size in [1, 63, 65, 100]:
        ops.append((f"enc leo8 - 4 2 {size} 5", {"cat": "enc-badsize", "d": 4}))
    # Encode on ONE encoder with shard sizes going down and up (pooled work buffers of another size must not show)
    for fam in ["leo8", "leo16"]:
        # shapes: d >= 2m, d = m, d < m, and m < d < 2m (one full group followed only by a partial group)
        for (d, p) in [(10, 4), (4, 4), (3, 9), (5, 3), (14, 7), (41, 17)]:
            for sizes in [[4096, 256, 64], [64, 4096, 128], [32768 + 64, 64, 32768], [64, 256, 64]]:
                subs = [f"e {sz} {rng.randrange(1, 1<<20)}" for sz in sizes]
                ops.append((f"hist {fam} - {d} {p} ; " + " ; ".join(subs), {"cat": "enc-history", "d": d}))
    # Verify on Leopard sets with a flipped byte (C06 for Leopard)
    for fam in ["leo8", "leo16"]:
        for (d, p, size) in [(5, 3, 64), (4, 4, 128), (10, 4, 32768 + 64)]:
            seed = rng.randrange(1, 1 << 30)
            ops.append((f"ver {fam} - {d} {p} {size} {seed} -1 0 0", {"cat": "ver", "d": d}))
            offs = range(size) if size <= 128 else [0, 1, 63, 64, 32767, 32768, size - 1] + [rng.randrange(size) for _ in range(10)]
            for s in range(d + p):
                for off in (offs if tier == "thorough" or size > 128 else list(offs)[::3]):
                    ops.append((f"ver {fam} - {d} {p} {size} {seed} {s} {off} {rng.randrange(1, 256)}", {"cat": "ver-flip", "d": d}))
    # the premise of the general Leopard theorems (C04_leo8/16_encode_all: the MODEL's tables carry the LCH code for every
    # configuration) is that the running package holds the model's tables: every entry of log / exp / skew, both fields
    for t in ["log", "exp", "skew"]:
        ops.append((f"tab leo8 {t} 0", {"cat": "tables-leo8", "fam": "tab", "d": 2, "p": 2}))
        for blk in range(256):
            ops.append((f"tab leo16 {t} {blk}", {"cat": "tables-leo16", "fam": "tab", "d": 2, "p": 2}))
    return ops


def flag_check(line, meta, flags):
    if flags.get("l0") == "0":
        return "schedule model's generator differs from the Lagrange closed form over Leopard's field"
    if line.startswith("gen leo") and flags.get("sched") != "1":
        return "the encode schedule violates a hypothesis of the structural theorems (row out of range / read before write)"
    if line.startswith("gen leo8") and flags.get("cert") != "1":
        return "the proved MDS certificate rejects the GF(2^8) generator"
    return None


def execute(ops, ctx):
    def key(line, meta, g):
        return line if g and g.startswith("ok") and meta.get("d", 0) >= 2 else None
    return C.execute_diff(ops, ctx, key, flag_check)
