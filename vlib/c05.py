"""C05 — Leopard Reconstruct restores every erased shard bit-exactly."""
from . import common as C
from .gens import *
from .c04 import admissible

PROP = "C05"
LEAN_MODULE = "RSV.Props.C05all"
RULE = ("proof: C05_leo8/16_reconstruct_all - the schedule model restores every erased shard for every admissible (d,p) and every erasure set of size <= p (LCH decoder proved: FWHT locator, novel-basis derivative, refinement of the loop schedules); for a fixed erasure set the reconstruct schedule is symbol-local, xor-linear and scratch-independent (arbitrary step "
        "lists), present shards are never written, data-only mode never writes parity, the error-locator table is a function of "
        "the erasure set (so caching it by erasure set is sound - the key is the complete set since fix f76f5f8); argument "
        "checks (too few shards) by the API model. Correspondence: Reconstruct / ReconstructData / ReconstructSome of the real "
        "encoders vs the original bytes (L0) and vs the schedule model (L1, small transforms): every erasure set with |E|<=p for "
        "small GF8 and forced-GF16 configurations, seeded larger ones incl. the <= p/4 region and >= 64 KiB shard sets that enable "
        "the bit-field shortcut, 32 KiB work-chunk straddling sizes, three encodings of 'missing', cache on/off. "
        "A case = one op line; non-trivial = at least one shard missing")
ASSUMPTIONS = ["the general theorem (C05_leo8/16_reconstruct_all) is about the schedule model with the full FFT; "
               "the bit-field-pruned FFT of the package equals it on the outputs read: by correspondence",
               "the Go code equals the model: by correspondence (this check, complete table comparison, C08 kernels)"]
TRUSTED = []


def gen_ops(tier, rng):
    ops = []

    def add(fam, o, d, p, size, mode, E, req, form, cat):
        ops.append((f"rec {fam} {o} {d} {p} {size} {rng.randrange(1, 1<<30)} {mode} {lst(E)} {lst(req)} {form}", {"cat": cat, "E": len(E)}))
    lim8, lim16 = (7, 6) if tier == "quick" else (10, 8)
    for fam, lim in (("leo8", lim8), ("leo16", lim16)):
        for d in range(1, lim):
            for p in range(1, lim + 1 - d):
                if not admissible(8, d, p):
                    continue
                for E in subsets(d + p, p + 1):
                    for mode in ["all", "data"]:
                        if tier == "quick" and fam == "leo16" and rng.random() < 0.5:
                            continue
                        add(fam, rng.choice(["-", "-", "nosimd", "ic-"]), d, p, rng.choice([64, 128]), mode, E, [], rng.choice(["nil", "empty", "cap"]), "exh-" + fam)
    n = 400 if tier == "quick" else 20000
    for _ in range(n):
        fam = rng.choice(["leo8", "leo8", "leo16"])
        bits = 8 if fam == "leo8" else 16
        d = rng.choice([rng.randint(1, 12), rng.randint(1, 60), rng.randint(1, 200)])
        p = rng.choice([rng.randint(1, 8), rng.randint(1, 40), rng.randint(4, 64)])
        if not admissible(bits, d, p):
            continue
        r = rng.random()
        k = rng.randint(1, max(1, p // 4)) if r < 0.35 else rng.randint(1, p) if r < 0.9 else p + 1
        E = sorted(rng.sample(range(d + p), min(k, d + p)))
        total = d + p
        big = (65536 // total) // 64 * 64 + 64          # smallest size with size*total >= 64 KiB
        size = rng.choice([64, 128, big, max(64, big - 64), 32768 + 64 if total <= 8 else 64, 4096])
        if total * size > 3_000_000:
            size = 64
        mode = rng.choice(["all", "all", "data", "someT", "someD"])
        req = sorted(rng.sample(range(d), min(d, 2))) if mode.startswith("some") else []
        add(fam, rng.choice(["-", "-", "nosimd", "ic-", "avx2-"]), d, p, size, mode, E, req, rng.choice(["nil", "empty", "cap"]), "seeded-" + fam)
    # shard sizes that are EXACT multiples of the 32 KiB (GF8) / 128 KiB (GF16) work chunk, and one symbol block more or less:
    # the last chunk is a full one
    for (fam, d, p, size) in [("leo8", 5, 3, 32768), ("leo8", 8, 2, 65536), ("leo8", 3, 3, 32768), ("leo8", 4, 4, 98304),
                              ("leo8", 5, 3, 32768 - 64), ("leo8", 10, 1, 32768), ("leo16", 5, 3, 131072), ("leo16", 3, 2, 262144),
                              ("leo16", 4, 3, 131072 - 64), ("leo16", 4, 3, 131072 + 64)]:
        E = sorted(rng.sample(range(d + p), rng.randint(1, p)))
        add(fam, rng.choice(["-", "avx2-"]), d, p, size, rng.choice(["all", "data"]), E, [], "nil", "chunk-multiple-" + fam)
    # unit level: after prepare(), isNeeded(mip, bit) <=> the aligned 2^mip block of `bit` holds an erasure (every block, every level)
    for _ in range(120 if tier == "quick" else 3000):
        k = rng.choice([1, 1, 2, 3, 5, 20, 200])
        pos8 = sorted(rng.sample(range(256), min(k, 256)))
        ops.append((f"bfneed 8 {lst(pos8)} 1,2,3,4,5,6,7,8", {"cat": "bitfield8", "E": 1}))
        hi = rng.choice([256, 4096, 8192, 65536, 65536])
        pos16 = sorted(rng.sample(range(hi), min(k, hi)))
        ops.append((f"bfneed 16 {lst(pos16)} 1,2,3,4,5,6,7,8,9,10,11,12,13,14,15,16", {"cat": "bitfield16", "E": 1}))
    for b in range(16):      # one erasure in each 4096-block: exercises every bit of the coarsest levels
        ops.append((f"bfneed 16 {b*4096 + rng.randrange(4096)} 10,11,12,13,14,15,16", {"cat": "bitfield16", "E": 1}))
    # large GF16 transforms (n >= 8192) with few erasures: the coarsest mip levels decide which butterflies run
    for (d, p) in ([(4096, 2048)] if tier == "quick" else [(4096, 2048), (8192, 4096), (6000, 2000)]):
        for _ in range(3 if tier == "quick" else 12):
            E = sorted(rng.sample(range(d), rng.randint(1, 3)))
            add("leo16", "-", d, p, 64, rng.choice(["all", "data"]), E, [], "nil", "large-gf16")
    # sequences of reconstructions on ONE Leopard encoder (the GF8 error-locator cache takes part): every answer must be the
    # original bytes.  Neighbouring erasure sets (one position moved) in every 64-bit word of the cache key, cache default
    # (<= 64 shards) and forced on larger shapes.
    from . import c10
    for _ in range(120 if tier == "quick" else 3000):
        fam = rng.choice(["leo8", "leo8", "leo8", "leo16"])
        if rng.random() < 0.5:
            d = rng.randint(2, 50); p = rng.randint(2, min(14, 64 - d)) if d < 62 else 2
            opts = rng.choice(["-", "-", "nosimd"])
        else:
            d = rng.randint(30, 200); p = rng.randint(2, 40)
            opts = rng.choice(["ic+", "ic+", "-"])
        if not admissible(8, d, p):
            continue
        n = d + p
        base = sorted(rng.sample(range(n), rng.randint(1, min(p, 3))))
        subs = []
        for _ in range(rng.randint(3, 7)):
            r = rng.random()
            if r < 0.7:
                E = list(base)
                k = rng.randrange(len(E))
                E[k] = min(n - 1, max(0, E[k] + rng.choice([-4, -1, 1, 4, 8])))
                E = sorted(set(E))
            elif r < 0.85:
                E = list(base)
            else:
                E = sorted(rng.sample(range(n), rng.randint(1, p)))
            subs.append(c10.sub_r(rng, d, p, 64, E, rng.choice(["all", "all", "data"]), []))
        ops.append((f"hist {fam} {opts} {d} {p} ; " + " ; ".join(subs), {"cat": "sequence-" + fam, "E": 1}))
        # the same missing DATA shards with different missing PARITY shards, mixing Reconstruct and ReconstructData
        if p >= 2:
            De = sorted(rng.sample(range(d), rng.randint(1, min(d, p - 1))))
            subs = []
            for _ in range(rng.randint(3, 6)):
                k = rng.randint(0, p - len(De))
                Pe = sorted(rng.sample(range(d, d + p), k))
                subs.append(c10.sub_r(rng, d, p, 64, De + Pe, rng.choice(["all", "data", "data"]), []))
            ops.append((f"hist {fam} {opts} {d} {p} ; " + " ; ".join(subs), {"cat": "sequence-parity-" + fam, "E": 1}))
    if tier == "thorough":
        for (d, p, k) in [(32768, 32768, 1), (32768, 32768, 8192), (1000, 1000, 250), (1000, 1000, 251), (65535, 1, 1), (1, 32768, 100)]:
            E = sorted(rng.sample(range(d + p), k))
            add("leo16", "-", d, p, 64, "all", E, [], "nil", "huge")
    return ops


def corpus_ops():
    return [("rec leo8 - 8 8 64 5 data 0,12 - nil", {"cat": "corpus", "E": 2})]


def flag_check(line, meta, flags):
    if flags.get("l1") == "0":
        return "schedule model's reconstruct disagrees with the original bytes"
    return None


def execute(ops, ctx):
    def key(line, meta, g):
        return line if meta.get("E", 0) > 0 else None
    return C.execute_diff(ops, ctx, key, flag_check)
