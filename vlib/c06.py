"""C06 — Verify returns true exactly when the parity matches the data."""
from . import common as C
from .gens import *

PROP = "C06"
LEAN_MODULE = "RSV.Props.C06all"
RULE = ("proof: C06_iff (verdict <-> every parity shard equals encodeSpec of the data), C06_flip_parity, C06_flip_data + "
        "C06_mds_entry_ne_zero (any single-byte change anywhere is detected for every MDS generator with p>=1), excluded points "
        "stated (C06_p0, C06_zero_column_undetected). Correspondence: Verify on encoded sets with one byte changed, for every "
        "(shard, offset) of short shards and sampled offsets of large ones, vs the model's recomputation; shards hashed before/"
        "after the call. A case = one op line; non-trivial = a flip with delta != 0")
ASSUMPTIONS = ["Leopard and stream Verify are covered in C04/C14 ops when built"]
TRUSTED = []


def gen_ops(tier, rng):
    ops = []

    def ver(f, o, d, p, size, fs, fo, dl, cat):
        ops.append((f"ver {f} {o} {d} {p} {size} {ver.seed} {fs} {fo} {dl}", {"cat": cat, "dl": dl, "fs": fs}))
    ver.seed = 7
    triples = [("default", "-", 3, 2), ("cauchy", "nosimd", 2, 3), ("default", "avx2-", 5, 1), ("jerasure", "gfni-,avxgfni-", 4, 4),
               ("default", "g=7,ms=1", 1, 1), ("cauchy", "ms=64,g=4", 10, 4), ("xor", "-", 4, 1)]
    lens = list(range(1, 70)) + [95, 96, 97, 127, 128, 129, 130] if tier == "quick" else list(range(1, 321))
    for (f, o, d, p) in triples:
        if tier == "quick" and d + p > 6:
            ls = [1, 31, 32, 33, 63, 64, 65, 129]
        else:
            ls = lens
        for size in ls:
            ver.seed = rng.randrange(1, 1 << 30)
            ver(f, o, d, p, size, -1, 0, 0, "noflip")
            for s in range(d + p):
                for off in range(size):
                    ver(f, o, d, p, size, s, off, rng.randrange(1, 256), "every-offset")
    # one parity shard with BOTH a custom row and WithFastOneParityMatrix (the custom row decides): Verify must use the encoder's
    # own parity, not the xor of the data - valid sets and every single-byte change
    for k in range(3):
        f = rng.choice(["custom:%d+xor", "xor+custom:%d"]) % rng.randrange(1, 999)
        for (d, size) in [(4, 31), (2, 64), (5, 100)]:
            ver.seed = rng.randrange(1, 1 << 30)
            ver(f, "-", d, 1, size, -1, 0, 0, "custom-fast-one-parity-noflip")
            for s in range(d + 1):
                for off in range(0, size, 7):
                    ver(f, "-", d, 1, size, s, off, rng.randrange(1, 256), "custom-fast-one-parity")
    # all 255 deltas at 4 offsets
    for dl in range(1, 256):
        for off in [0, 1, 63, 99]:
            ver("default", "-", 4, 2, 100, rng.randrange(6), off, dl, "all-deltas")
    # large shards: first/last byte, around 64-multiples and goroutine chunk boundaries, random offsets
    for (f, o, d, p, size) in [("default", "-", 10, 4, 33333), ("cauchy", "g=4,ms=1024", 5, 3, 32768 + 64), ("default", "ms=4096,g=16", 3, 2, (1 << 20) + 1),
                               ("default", "-", 2, 2, (2 << 20) + 77), ("cauchy", "nosimd", 2, 1, (1 << 20) + (1 << 19))]:
        ver.seed = rng.randrange(1, 1 << 30)
        offs = {0, size - 1, size // 2, 63, 64, 65, size - 64, size - 65}
        for k in range(1, 17):
            b = (size // 16) * k
            offs |= {max(0, b - 1), min(size - 1, b), min(size - 1, b + 1)}
        offs |= {rng.randrange(size) for _ in range(20 if tier == "quick" else 200)}
        if size > (1 << 20):       # the last partial MiB / partial block of a large shard
            tail = (size >> 20) << 20
            offs |= {o for o in (tail, tail + 1, (tail + size) // 2, size - 2) if 0 <= o < size}
        for off in sorted(offs):
            ver(f, o, d, p, size, rng.randrange(d + p), off, rng.randrange(1, 256), "large")
    # Leopard GF8 / GF16 (the property is about every codec): every shard, incl. shapes with more parity than data, one
    # parity, one data shard; sizes are multiples of 64; the 32 KiB work chunk is straddled
    leoshapes = [(3, 7), (1, 2), (2, 5), (1, 1), (2, 2), (4, 4), (5, 3), (7, 9), (1, 8), (6, 1), (12, 20)]
    for fam in ["leo8", "leo16"]:
        for (d, p) in leoshapes:
            for size in ([64] if tier == "quick" else [64, 128, 192]):
                ver.seed = rng.randrange(1, 1 << 30)
                ver(fam, rng.choice(["-", "-", "nosimd", "avx2-"]), d, p, size, -1, 0, 0, "leo-noflip")
                step = 1 if tier == "thorough" else (5 if d + p > 10 else 2)
                for s_ in range(d + p):
                    for off in list(range(0, size, step)) + [size - 1]:
                        ver(fam, "-", d, p, size, s_, off, rng.randrange(1, 256), "leo-every-shard")
        for (d, p, size) in [(3, 5, 32768 + 64), (9, 4, 65536), (2, 3, 3 * 32768)]:
            ver.seed = rng.randrange(1, 1 << 30)
            for s_ in range(d + p):
                for off in [0, 63, 64, 32767, 32768, size - 1, rng.randrange(size)]:
                    ver(fam, rng.choice(["-", "nosimd"]), d, p, size, s_, off, rng.randrange(1, 256), "leo-large")
    # many callers verifying their own valid sets through ONE encoder: every verdict must be true
    for (fam, o, d, p, size) in [("default", "-", 5, 3, 4096), ("default", "ms=64,g=4", 10, 4, 20000), ("leo8", "-", 8, 8, 4096),
                                  ("leo16", "-", 8, 8, 65536), ("leo16", "-", 4, 2, 4096), ("cauchy", "nosimd", 3, 2, 1000)]:
        for n in ([8, 32] if tier == "quick" else [2, 8, 32, 64]):
            ops.append((f"concver {fam} {o} {d} {p} {size} {n} {1500 if tier == 'quick' else 8000}", {"cat": "concurrent-verify", "dl": 1}))
    return ops


def flag_check(line, meta, flags):
    if flags.get("m") == "0":
        return "fast table path of the driver disagrees with the generic model definition"
    return None


def execute(ops, ctx):
    def key(line, meta, g):
        return line if meta.get("dl", 0) != 0 else None
    res = C.execute_diff(ops, ctx, key, flag_check)
    # property-level: a flipped byte must give false, no flip must give true (independent of the model)
    for (line, meta), in zip(ops):
        pass
    return res
