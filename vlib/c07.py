"""C07 — results do not depend on CPU features, goroutine settings, alignment or build."""
import os
from . import common as C
from .gens import *

PROP = "C07"
LEAN_MODULE = "RSV.Props.C07"
RULE = ("proof: for all byte counts and all derived options (goroutines, min split size, per-round size, kernel granularity or "
        "no kernel) the modelled range splitting is a chain covering [0,n) exactly once, worker ranges are pairwise disjoint, and "
        "piecewise evaluation of a column-local function equals whole evaluation - so any two option records give the same bytes "
        "(C07_options). Correspondence: ONE op file run through four builds of the harness (default, noasm, nopshufb, nounsafe) "
        "under GOMAXPROCS 1/2/16 with an option matrix (each SIMD switch off in turn, goroutine/split settings, "
        "WithAutoGoroutines), all compared with the single option-free L0 answer of the driver, hence with each other. "
        "A case = (build, GOMAXPROCS, op line); non-trivial = a successful op with p>=1")
ASSUMPTIONS = ["cpuid detection and the option→path function are exercised, not modelled",
               "the `nogen` tag does not compile on amd64 at the pinned commit and is excluded",
               "buffer alignment/offset independence is exercised in C09 (arena layouts)"]
TRUSTED = []

OPTMATRIX = ["-", "avx2-", "ssse3-", "sse2-", "avx512-", "gfni-", "avxgfni-", "gfni-,avxgfni-", "gfni-,avxgfni-,avx2-",
             "gfni-,avxgfni-,avx2-,ssse3-", "nosimd", "g=1", "g=2", "g=7", "g=384", "ms=1", "ms=64", "ms=1024",
             "g=7,ms=1", "g=2,ms=64", "ag=1000", "ag=65536", "ag=4194304", "gfni-,g=3,ms=100"]


def gen_ops(tier, rng):
    ops = []
    dims = [1, 2, 3, 4, 9, 10, 11, 20, 21, 30] if tier == "thorough" else [1, 3, 4, 10, 11, 21]
    sizes = [1, 31, 32, 63, 64, 65, 127, 128, 129, 1023, 1024, 1025, 2752 - 1, 2752, 2753, 4096 + 40, 32768 + 33, 65536 + 1, 131072 + 63]
    for d in dims:
        for p in dims:
            if d + p > 256:
                continue
            for o in (OPTMATRIX if tier == "thorough" else rng.sample(OPTMATRIX, 5)):
                size = rng.choice(sizes)
                if d * p * size > 3_000_000:
                    size = rng.choice(sizes[:12])
                ops.append((f"enc default {o} {d} {p} {size} {rng.randrange(1, 1<<30)}", {"cat": "enc", "p": p}))
    for o in OPTMATRIX:
        for size in (sizes if tier == "thorough" else rng.sample(sizes, 6)):
            for (d, p) in [(10, 4), (11, 13), (3, 11), (12, 3)]:
                if d * p * size > 3_000_000:
                    continue
                ops.append((f"enc cauchy {o} {d} {p} {size} {rng.randrange(1, 1<<30)}", {"cat": "enc-opt", "p": p}))
        # tails 0..63 on one size per option row
        base = rng.choice([1024, 4096, 2752 * 3])
        for tail in (range(64) if tier == "thorough" else rng.sample(range(64), 8)):
            ops.append((f"enc default {o} 11 4 {base + tail} {rng.randrange(1, 1<<30)}", {"cat": "enc-tail", "p": 4}))
        d, p = rng.choice([(5, 3), (10, 4), (11, 12)])
        E = sorted(rng.sample(range(d + p), rng.randint(1, p)))
        ops.append((f"rec default {o} {d} {p} {rng.choice(sizes[:15])} {rng.randrange(1, 1<<30)} all {lst(E)} - nil", {"cat": "rec", "p": p}))
        ops.append((f"ver default {o} {d} {p} {rng.choice(sizes[:12])} {rng.randrange(1, 1<<30)} {rng.randrange(d+p)} 0 77", {"cat": "ver", "p": p}))
        order = list(range(d)); rng.shuffle(order)
        ops.append((f"idx {o} {d} {p} {rng.choice(sizes[:17])} {rng.randrange(1, 1<<30)} {lst(order)}", {"cat": "idx", "p": p}))
        for size in ([2752 * 2 + 40, 65536 + 40] if "gfni-" in o or o in ("-", "g=1", "nosimd") else [rng.choice([2752, 2752*2+40, 65536+40, 1048616])]):
            ops.append((f"idx {o} 2 13 {size} {rng.randrange(1, 1<<30)} 0,1", {"cat": "idx-codegen", "p": 13}))
        S = sorted(rng.sample(range(d), rng.randint(1, d)))
        ops.append((f"upd {o} {d} {p} {rng.choice(sizes[:17])} {rng.randrange(1, 1<<30)} {lst(S)} -", {"cat": "upd", "p": p}))
    # the block planners of the generated-kernel paths (AVX2 and GFNI): more than 10 inputs AND at least as many outputs, output
    # count not a multiple of 10, shards above minSplitSize - the planner walks output blocks first
    for (d, p) in [(11, 11), (12, 13), (11, 25), (23, 27), (11, 12), (13, 31), (10, 11), (21, 21)]:
        for o in ["gfni-,avxgfni-", "gfni-,avxgfni-,g=1", "gfni-,avxgfni-,ms=2048", "-", "gfni-", "avx2-,gfni-,avxgfni-", "g=3"]:
            for size in ([4096 + 40, 65536 + 1] if tier == "quick" else [256, 4096 + 40, 65536 + 1, 300000]):
                ops.append((f"enc {rng.choice(['default', 'cauchy'])} {o} {d} {p} {size} {rng.randrange(1, 1<<30)}", {"cat": "enc-planner", "p": p}))
    # sparse custom matrices under every option row (a zero coefficient must behave the same on every kernel family)
    for o in OPTMATRIX:
        for (d, p) in [(12, 4), (5, 3)]:
            for size in [4097, 20001, 65537 + 13]:
                ops.append((f"enc sparse:{rng.randrange(1, 999)} {o} {d} {p} {size} {rng.randrange(1, 1<<30)}", {"cat": "enc-sparse", "p": p}))
    # block-sparse custom matrices (whole aligned 10x10 tiles zero) under every option row
    for o in OPTMATRIX:
        for (d, p) in [(20, 12), (12, 4), (11, 21)]:
            for size in [100, 4097]:
                ops.append((f"enc blocks:{rng.randrange(1, 9999)} {o} {d} {p} {size} {rng.randrange(1, 1<<30)}", {"cat": "enc-blocks", "p": p}))
    # Leopard GF8 / GF16 under every option row and build: the portable butterflies (AVX2/SSSE3 off, noasm, nopshufb) must
    # give the bytes of the SIMD ones - Encode and every Reconstruct mode
    leoshapes = [(2, 2), (5, 3), (10, 4), (17, 8), (40, 20), (3, 9), (1, 1)]
    for o in OPTMATRIX:
        for fam in ["leo8", "leo16"]:
            for (d, p) in (leoshapes if tier == "thorough" else rng.sample(leoshapes, 3)):
                size = rng.choice([64, 640, 4160, 32768 + 64] if d + p <= 14 else [64, 640, 4160])
                ops.append((f"enc {fam} {o} {d} {p} {size} {rng.randrange(1, 1<<30)}", {"cat": "enc-" + fam, "p": p}))
                E = sorted(rng.sample(range(d + p), rng.randint(1, p)))
                mode = rng.choice(["all", "all", "data"])
                ops.append((f"rec {fam} {o} {d} {p} {size} {rng.randrange(1, 1<<30)} {mode} {lst(E)} - nil", {"cat": "rec-" + fam, "p": p}))
            if fam == "leo8":       # a shard size that is an exact multiple of the 32 KiB work chunk, parity not a power of two
                ops.append((f"enc leo8 {o} 5 3 {rng.choice([32768, 65536])} {rng.randrange(1, 1<<30)}", {"cat": "enc-leo8-chunk", "p": 3}))
            d, p = rng.choice(leoshapes)
            ops.append((f"ver {fam} {o} {d} {p} 128 {rng.randrange(1, 1<<30)} {rng.randrange(d+p)} {rng.randrange(128)} 77", {"cat": "ver-" + fam, "p": p}))
    if tier == "thorough":
        for size in [(10 << 20) - 64, (10 << 20) + 64]:
            ops.append((f"enc default - 11 4 {size} 7", {"cat": "enc-10MiB", "p": 4}))
            ops.append((f"enc default gfni-,avxgfni- 11 4 {size} 7", {"cat": "enc-10MiB", "p": 4}))
    return ops


BUILDS = [("default", "verif"), ("noasm", "verif noasm"), ("nopshufb", "verif nopshufb"), ("nounsafe", "verif nounsafe")]


def execute(ops, ctx):
    lines = [o for o, _ in ops]
    lean = [C.split_flags(l)[0] for l in C.run_ops(ctx["driver"], lines)]
    mism, nontriv, dist, samples = [], set(), {}, []
    evals = 0
    gmps = ["1", "2", "16"] if ctx["tier"] == "thorough" else ["1", "16"]
    for (bname, tags) in BUILDS:
        exe = C.build_harness(tags=tags, name="harness_" + bname)
        for gmp in gmps:
            if ctx["tier"] == "quick" and bname != "default" and gmp == "1":
                continue
            env = dict(os.environ, GOMAXPROCS=gmp)
            go = C.run_ops(exe, lines, env=env)
            for (line, meta), g, l in zip(ops, go, lean):
                evals += 1
                dist[f"{bname}/gomaxprocs={gmp}"] = dist.get(f"{bname}/gomaxprocs={gmp}", 0) + 1
                if g and g.startswith("ok") and meta.get("p", 0) >= 1:
                    nontriv.add((bname, gmp, line))
                if g != l:
                    mism.append({"kind": "go-vs-model", "ops": [line], "go": (g or "")[:1500], "model": l[:1500],
                                 "cat": meta["cat"], "build": bname, "gomaxprocs": gmp})
            if len(samples) < 6:
                samples.append({"build": bname, "gomaxprocs": gmp, "op": lines[len(samples) * 7 % len(lines)][:200]})
    # the derived parameters themselves (perRound, minSplitSize, maxGoroutines) vs RSV.Model.Options.derive, per GOMAXPROCS
    import subprocess, random
    rng = random.Random(ctx["seed"])
    flags = ["-", "ag=1000", "ag=4096", "ag=20000", "ag=40000", "ag=65536", "ag=131072", "ag=1000000", "ms=1", "ms=100000",
             "ag=40000,ms=20000", "ag=131072,ms=60000", "g=1", "g=3", "g=1000", "avx2-", "gfni-,avxgfni-", "gfni-,avxgfni-,ag=40000",
             "nosimd,ag=50000", "ag=50000,ms=500", "g=5,ag=300000", "gfni-,avxgfni-,avx2-,g=100", "ag=3000", "ag=2049,ms=1024"]
    exe = os.path.join(C.BIN, "harness_default")
    for gmp in ["1", "2", "5", "16"]:
        env = dict(os.environ, GOMAXPROCS=gmp)
        cpu = subprocess.run([exe], input="cpu\n", text=True, capture_output=True, env=env).stdout.split()
        if len(cpu) < 6:
            continue
        pre = " ".join(cpu[:5]) + " " + ",".join(cpu[5:])
        ol = [f"opts {pre} {d} {p} {f}" for d in [1, 2, 5, 10, 11, 12, 20, 50, 200] for p in [1, 2, 3, 4, 10, 11, 14, 30] if d + p <= 256 for f in flags]
        if ctx["tier"] == "quick":
            ol = rng.sample(ol, 500)
        go = C.run_ops(exe, ol, env=env)
        le = [C.split_flags(x)[0] for x in C.run_ops(ctx["driver"], ol)]
        for o, g, l in zip(ol, go, le):
            evals += 1
            dist[f"opts/gomaxprocs={gmp}"] = dist.get(f"opts/gomaxprocs={gmp}", 0) + 1
            if g and g.startswith("ok"):
                nontriv.add(("opts", gmp, o))
                f = g.split()
                if int(f[1]) < 1 or int(f[2]) < 1 or int(f[3]) < 1:
                    mism.append({"kind": "non-positive-derived-parameter", "ops": [o], "go": g, "model": l, "cat": "opts", "gomaxprocs": gmp})
            if g != l:
                mism.append({"kind": "go-vs-model", "ops": [o], "go": g, "model": l, "cat": "opts", "gomaxprocs": gmp})
    return {"evaluations": evals, "nontrivial": nontriv, "mismatches": mism, "samples": samples, "dist": dist,
            "extra": {"builds": [b for b, _ in BUILDS], "option_rows": len(OPTMATRIX)}}
