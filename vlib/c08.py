"""C08 — every SIMD kernel computes the same bytes as the scalar field arithmetic."""
import os
from . import common as C
from .gens import *

PROP = "C08"
LEAN_MODULE = "RSV.Props.C08all"
RULE = ("proof: C08_asm_sound - a reflective checker for the TEXT of the generated amd64 kernels (parsed from "
        "galois_gen_amd64.s / galois_gen_nopshufb_amd64.s on every run) with a soundness theorem: an accepted kernel, run by "
        "a byte-level semantics of its 21 instructions on ANY environment meeting the calling contract (matrix expanded as "
        "genCodeGenMatrix / genGFNIMatrix do, slices long enough), terminates without an out-of-bounds access and leaves in "
        "output i, on [start, start+count), exactly (old output if Xor) xor sum_j A[i][j]*in_j, everything else unchanged - "
        "for every matrix, input, start and n; all 600 + 400 kernels must be accepted on every run; the per-lane recipes - PSHUFB nibble lookup on the regenerated mulTableLow/High (C08_nibble) and "
        "GF2P8AFFINEQB on the regenerated bit matrices (C08_affine) - equal the field product for all 65,536 (coefficient, "
        "byte) pairs; returned-count arithmetic (C08_count) and slot layout of the expanded matrices. Execution tie: EVERY "
        "generated kernel entry point (AVX2, AVX512+GFNI, AVX+GFNI; overwrite and xor; 1..10 x 1..10) is called through its "
        "switch function with matrices expanded by genCodeGenMatrix/genGFNIMatrix: lane-exhaustive runs (every slot x 256 "
        "coefficients x every byte value at every residue mod 64) for all 600 kernels, random matrices/lengths/start offsets/misaligned buffers for all; inputs unchanged, bytes outside "
        "[start,start+n) unchanged, 128-byte guard zones intact, returned count = the model's; hand-written multiply/xor "
        "kernels for all 256 coefficients and every instruction-set switch; Leopard GF8/GF16 butterfly and multiply "
        "kernels against the table-driven definition; the nopshufb build's kernel set too. Expected bytes come from a "
        "first-principles shift-and-reduce product, not from the package's tables. A case = one kernel call or lane sweep")
ASSUMPTIONS = ["generated matrix kernels: proved from their text under the modelled instruction semantics (RSV.Model.Asm.stepInstr: "
               "MOVQ ADDQ SHRQ TESTQ DECQ JZ JNZ RET VZEROUPPER VMOVDQU(64) VPSHUFB VPXOR VXORPD VPAND VPSRLQ VPBROADCASTB "
               "VBROADCASTSD VBROADCASTF32X2 VGF2P8AFFINEQB(.BCST)) - that semantics and the Plan 9 text parser are trusted and "
               "cross-checked by the lane-exhaustive execution on this CPU; the hand-written multiply/xor kernels and the "
               "Leopard butterfly kernels are proved the same way (C08_asm_leo_sound, C08_asm_hand_sound) with a richer machine "
               "model (undefined flags, SUBQ/JA loops, legacy SSE, VPTERNLOGD)",
               "only the instruction sets of this CPU are executed (it has SSE2, SSSE3, AVX2, AVX512F/BW/VL/DQ, GFNI)"]
TRUSTED = ["instruction semantics RSV.Model.Asm.stepInstr and the kernel-text parser (vlib/asm.py, RSV.Model.Asm.parseKernel)"]

FAMILIES = ["avx2", "gfni", "avxgfni"]


def gen_ops(tier, rng):
    ops = []
    dims = range(1, 11)
    # lane-exhaustive
    lane_dims = list(dims)      # every kernel, both tiers (a 10x10 sweep = 25,600 calls of 16 KiB ≈ 1.6 s)
    for fam in FAMILIES:
        for xor in (0, 1):
            for ni in lane_dims:
                for no in lane_dims:
                    ops.append((f"kernlane {fam} {xor} {ni} {no}", {"cat": f"lane-{fam}"}))
    # random matrices for every kernel
    nr = 6 if tier == "quick" else 100
    for fam in FAMILIES:
        for xor in (0, 1):
            for ni in dims:
                for no in dims:
                    for _ in range(nr):
                        size = rng.choice([rng.randint(0, 300), rng.randint(0, 4096), 64, 128, 1024])
                        start = rng.choice([0, 0, rng.randint(0, 130)])
                        start = min(start, size)
                        stop = rng.choice([size, size, rng.randint(start, size)])
                        ops.append((f"kern {fam} {xor} {ni} {no} {size} {start} {stop} {rng.randrange(1, 1<<30)}", {"cat": f"rand-{fam}"}))
    # every kernel with a non-zero start offset (the worker windows of the codec): every input and output pointer must be
    # advanced by `start`; start a multiple of the kernel block and not; stop inside the buffer
    for fam in FAMILIES:
        for xor in (0, 1):
            for ni in dims:
                for no in dims:
                    for (start, extra) in ([(64, 256), (200, 300)] if tier == "quick" else [(64, 256), (200, 300), (32, 64), (4096, 640), (1, 130)]):
                        size = start + extra + rng.choice([0, 0, 17])
                        stop = max(start, rng.choice([size, size, size - rng.randint(0, 70)]))   # the codec never passes stop < start
                        ops.append((f"kern {fam} {xor} {ni} {no} {size} {start} {stop} {rng.randrange(1, 1<<30)}", {"cat": f"start-{fam}"}))
    # hand-written multiply / xor kernels behind galMulSlice / sliceXor
    for flags in ["-", "2", "3", "a", "5", "g", "x", "23a5gx", "3a"]:
        for xor in (0, 1):
            # every residue of the length modulo 16/32/64 around the kernels' block sizes, and large slices with each tail class
            for size in sorted(set([0, 1, 15, 17, 31, 33, 63, 65, 127, 129, 1000, 4096 + 40] + list(range(16, 544, 16)) +
                                   [4000, 4096, 65536, 65568, 65536 + 48, 65536 + 16, 100003])):
                ops.append((f"mulslice {flags} {xor} {size} {rng.randrange(1, 1<<30)}", {"cat": "mulslice"}))
        for size in sorted(set([0, 1, 15, 31, 33, 63, 65, 127, 129, 1000, 70000] + list(range(16, 544, 16)) + [4000, 65568, 65536 + 48, 100003])):
            ops.append((f"slicexor {flags} {size} {rng.randrange(1, 1<<30)}", {"cat": "slicexor"}))
    # Leopard kernels
    for gf in ["8", "16"]:
        for op in ["fft2", "ifft2", "mul", "fft4", "ifft4"]:
            for flags in ["-", "3", "a", "5", "g", "3a5"]:
                for size in [64, 128, 4096, 32768]:
                    for _ in range(3 if tier == "quick" else 40):
                        ops.append((f"leobf {gf} {op} {flags} {size} {rng.randrange(1, 1<<30)}", {"cat": f"leo{gf}-{op}"}))
    return ops


def execute(ops, ctx):
    def key(line, meta, g):
        return line if g and g.startswith("ok") else None
    res = C.execute_diff(ops, ctx, key)
    # the nopshufb build has its own generated kernel set
    exe = C.build_harness(tags="verif nopshufb", name="harness_nopshufb")
    sub = [(l, m) for (l, m) in ops if not l.split()[1].startswith("avx2")]
    sub = sub if ctx["tier"] == "thorough" else sub[::3]
    lines = [l for l, _ in sub]
    go = C.run_ops(exe, lines)
    lean = [C.split_flags(x)[0] for x in C.run_ops(ctx["driver"], lines)]
    for (l, m), g, e in zip(sub, go, lean):
        res["evaluations"] += 1
        if g == "skip":
            continue
        if g != e:
            res["mismatches"].append({"kind": "go-vs-model", "ops": [l], "go": g, "model": e, "cat": m["cat"], "build": "nopshufb"})
        elif g and g.startswith("ok"):
            res["nontrivial"].add(("nopshufb", l))
    # the TEXT of every generated kernel through the proved reflective checker (C08_asm_sound): an accepted kernel computes
    # the matrix product on [start, start+count) and touches nothing else, for every matrix, input, start and n
    from . import asm
    import random
    import os
    klines = asm.lines()
    nplines = asm.lines(os.path.join(asm.REPO, "galois_gen_nopshufb_amd64.s"))     # the nopshufb build's own kernel set
    problems = []
    if len(klines) != 600 or len(nplines) != 400:
        problems.append(f"expected 600 + 400 generated kernels in galois_gen_amd64.s / galois_gen_nopshufb_amd64.s, "
                        f"the extractor found {len(klines)} + {len(nplines)}")
    # the remaining amd64 kernels (C08_asm_leo_sound / C08_asm_hand_sound): Leopard butterflies and multiplies, xor slices,
    # the hand-written galMul* kernels - 81 in galois_gen_amd64.s + galois_amd64.s, 19 in the nopshufb file
    other = asm.lines2() + asm.lines2([os.path.join(asm.REPO, "galois_gen_nopshufb_amd64.s")])
    if len(other) != 100:
        problems.append(f"expected 81 + 19 Leopard / xor / hand-written kernels, the extractor found {len(other)}")
    for l, v in zip(other, C.run_ops(ctx["driver"], ["asmcheck " + l for l in other])):
        res["evaluations"] += 1
        if v == "ok":
            res["nontrivial"].add(("asm-other", l.split()[0]))
        else:
            problems.append(f"assembly checker rejects {l.split()[0]}: {v}")
    npv = C.run_ops(ctx["driver"], ["asmcheck " + l for l in nplines])
    for l, v in zip(nplines, npv):
        res["evaluations"] += 1
        if v == "ok":
            res["nontrivial"].add(("asm-nopshufb", l.split()[0]))
        else:
            problems.append(f"assembly checker rejects {l.split()[0]} of the nopshufb build: {v}")
    verdicts = C.run_ops(ctx["driver"], ["asmcheck " + l for l in klines])
    res.setdefault("dist", {})["asm-kernels-checked"] = len(klines) + len(nplines) + len(other)
    res.setdefault("extra", {})["asm_kernels"] = len(klines) + len(nplines) + len(other)
    rng = random.Random(ctx["seed"])
    for l, v in zip(klines, verdicts):
        res["evaluations"] += 1
        if v == "ok":
            res["nontrivial"].add(("asm", l.split()[0]))
            continue
        name, fam, xor, ni, no = l.split()[:5]
        problems.append(f"assembly checker rejects {name}: {v}")
        # look for a concrete failing call of this kernel on the real CPU
        probe = [f"kernlane {fam} {xor} {ni} {no}"]
        for _ in range(300):
            start = rng.choice([0, 32, 64, 96, 200, rng.randint(0, 500)])
            size = start + rng.choice([32, 64, 96, 256, 1000, rng.randint(0, 2000)])
            stop = rng.choice([size, size, rng.randint(start, size)])
            probe.append(f"kern {fam} {xor} {ni} {no} {size} {start} {stop} {rng.randrange(1, 1 << 30)}")
        go = C.run_ops(ctx["harness"], probe)
        lean = [C.split_flags(x)[0] for x in C.run_ops(ctx["driver"], probe)]
        for o, g, e in zip(probe, go, lean):
            if g != "skip" and g != e:
                res["mismatches"].append({"kind": "kernel-wrong (checker rejected " + name + ": " + str(v) + ")", "ops": [o], "go": g, "model": e, "cat": "asm-probe"})
                break
    res["proof_problems"] = problems
    return res
