"""C09 — operations write only where the contract allows (frame conditions)."""
from . import common as C
from .gens import *

PROP = "C09"
LEAN_MODULE = "RSV.Props.C09"
RULE = ("proof: write sets of the model - Encode: parity only; Verify: nothing; Reconstruct*: a subset of the missing shards, "
        "present shards are returned unchanged (from C02_present_untouched / reconSpec), in place iff capacity suffices; "
        "Update: parity and the consumed old copies; AllocAligned: for all shard counts, sizes and all 64 base alignments the slices "
        "have the requested length, lie inside the allocation, do not overlap (capacities included) and start 64-aligned. "
        "Correspondence: every shard set is laid out as sub-slices of ONE sentinel-filled arena (random gaps, spare capacity, "
        "data and parity interleaved); after each call every arena byte outside the model's write set must be unchanged, and the "
        "per-shard class u/w/a must equal the model's. A case = one op line; non-trivial = an operation that writes something")
ASSUMPTIONS = ["kernel-level frames (vector stores past n) are additionally covered by C08's guard zones"]
TRUSTED = []


def gen_ops(tier, rng):
    ops = []
    fams = ["default", "cauchy", "leo8", "leo16"]
    shapes = [(1, 1), (2, 1), (3, 2), (4, 2), (5, 3), (10, 4), (11, 11), (2, 3), (17, 3)]
    sizes_m = [1, 15, 16, 17, 31, 32, 33, 63, 64, 65, 127, 128, 129, 1000, 4097, 70000 if tier == "thorough" else 2753]
    sizes_l = [64, 128, 192, 4096, 32768 + 64]
    nlay = 6 if tier == "quick" else 60
    for fam in fams:
        leo = fam.startswith("leo")
        for (d, p) in shapes:
            for size in (sizes_l if leo else sizes_m):
                if d * p * size > 2_000_000:
                    continue
                for _ in range(nlay if size < 200 else 2):
                    seed = rng.randrange(1, 1 << 30)
                    o = rng.choice(OPTSETS)
                    ops.append((f"frame {fam} {o} {d} {p} {size} {seed} enc", {"cat": "enc", "w": 1}))
                    ops.append((f"frame {fam} {o} {d} {p} {size} {seed} ver -", {"cat": "ver", "w": 0}))
                    if not leo and rng.random() < 0.7:
                        order = rng.sample(range(d), rng.randint(1, d))
                        ops.append((f"frame {fam} {o} {d} {p} {size} {seed} idx {lst(order)}", {"cat": "idx", "w": 1}))
                        S = sorted(rng.sample(range(d), rng.randint(1, d)))
                        nils = [c for c in range(d) if c not in S and rng.random() < 0.4]
                        ops.append((f"frame {fam} {o} {d} {p} {size} {seed} upd {lst(S)} {lst(nils)}", {"cat": "upd", "w": 1}))
    # the encoder served a larger shard size first (pooled work buffers are longer than this call needs)
    for fam in fams:
        leo = fam.startswith("leo")
        for (d, p) in [(2, 1), (4, 4), (5, 3), (10, 4)]:
            for (small, big) in ([(64, 1024), (128, 192), (256, 32768 + 64), (64, 128)] if leo else [(10, 1000), (100, 5000), (64, 65), (1000, 70000)]):
                for _ in range(2 if tier == "quick" else 10):
                    ops.append((f"frame {fam} {rng.choice(OPTSETS)} {d} {p} {small} {rng.randrange(1, 1<<30)} encw {big}", {"cat": "enc-after-larger", "w": 1}))
    # all erasure patterns of small configurations x modes x capacity modes
    for fam in fams:
        leo = fam.startswith("leo")
        for (d, p) in [(1, 1), (2, 1), (2, 2), (3, 2)] + ([(2, 3), (3, 3)] if tier == "thorough" else []):
            for E in subsets(d + p, p + 1):
                if not E:
                    continue
                for mode in ["all", "data", "someT", "someD"]:
                    for capm in ["big", "exact", "small", "zero"]:
                        if tier == "quick" and rng.random() < 0.5:
                            continue
                        n = d + p if mode == "someT" else d
                        req = sorted(rng.sample(range(n), rng.randint(0, n)))
                        size = rng.choice([64, 128] if leo else [1, 16, 33, 64, 100])
                        ops.append((f"frame {fam} {rng.choice(OPTSETS)} {d} {p} {size} {rng.randrange(1,1<<30)} rec {mode} {lst(E)} {lst(req)} {capm}",
                                    {"cat": "rec", "w": 1}))
    # Split with more spare capacity than it needs: the caller's bytes behind the last returned shard keep their contents
    for fam in ["default", "cauchy", "leo8", "leo16"]:
        for (d, p) in [(2, 1), (4, 2), (5, 3), (10, 4), (1, 1)]:
            for n in [1, 7, 100, 1000, 4097]:
                q = 64 if fam.startswith("leo") else 1
                per = ((n + d - 1) // d + q - 1) // q * q
                need = per * (d + p) - n
                for spare in [need + 1, need + 64, 2 * need + 3, need + 4096]:
                    ops.append((f"split {fam} {d} {p} {n} {spare} {rng.randrange(1, 1<<30)}", {"cat": "split-spare", "w": 1}))
    for n in range(0, 21 if tier == "quick" else 41):
        for each in (list(range(0, 70)) + [100, 127, 128, 129, 200] if tier == "quick" else range(0, 201)):
            ops.append((f"allocchk {n} {each}", {"cat": "alloc", "w": 1 if n and each else 0}))
    return ops


def execute(ops, ctx):
    def key(line, meta, g):
        return line if meta.get("w") and g and (g.startswith("nil") or g.startswith("ok")) else None
    res = C.execute_diff(ops, ctx, key)
    # a write that stores the value already there cannot be observed: for 1- and 2-byte shards the
    # observed class `u` is accepted where the model says `w`
    keep = []
    for mm in res["mismatches"]:
        f = mm["ops"][0].split()
        g, m = mm["go"].split(), mm["model"].split()
        if f[0] == "frame" and int(f[5]) <= 2 and len(g) == 3 and len(m) == 3 and g[0] == m[0] and g[2] == m[2] \
                and len(g[1]) == len(m[1]) and all(a == b or (a == "u" and b == "w") for a, b in zip(g[1], m[1])):
            continue
        keep.append(mm)
    res["mismatches"] = keep
    return res
