"""C10 — an encoder's answers do not depend on its call history."""
import itertools
from . import common as C
from .gens import *

PROP = "C10"
LEAN_MODULE = "RSV.Props.C10all"
RULE = ("proof: C10_matrix / C10_fresh / C10_history_independent - for every finite history of Reconstruct* calls on the "
        "modelled encoder (inversion tree enabled or disabled) every answer equals the cache-free answer; trie laws and 'the key "
        "determines the survivor rows'. Correspondence: histories on one long-lived encoder per codec (matrix with cache on/off, "
        "Leopard GF8 with its error-locator cache incl. forced-size shard sets, Leopard GF16) - after every operation the same "
        "operation runs on a fresh encoder and both answers (error, every byte) must agree and be the original bytes; generators are "
        "biased to collide (erasure sets sharing their data part, differing in one parity index, alternating modes and sizes "
        "across 64 KiB). A case = one history line; non-trivial = at least two reconstructions with different erasure sets")
ASSUMPTIONS = ["Leopard GF8 locator cache and work-buffer pools: decided by the fresh-vs-long-lived comparison (no Lean theorem yet)",
               "StreamEncoder block pool: exercised through C14 ops on one process"]
TRUSTED = []


def sub_r(rng, d, p, size, E, mode=None, req=None):
    mode = mode or rng.choice(["all", "data", "all", "data", "someT", "someD"])
    if req is None:
        n = d + p if mode == "someT" else d
        req = [e for e in E if e < n] if rng.random() < 0.7 else rng.sample(range(n), min(n, 2))
    return f"r {size} {rng.randrange(1, 1<<20)} {mode} {lst(E)} {lst(sorted(req))} {rng.choice(['nil', 'empty', 'cap'])}"


def gen_ops(tier, rng):
    ops = []
    # all ordered pairs of erasure sets on small configurations (length-2 histories)
    for fam, d, p, sizes in [("leo8", 4, 4, [64, 8192]), ("default", 3, 3, [10, 100]), ("leo8", 2, 2, [64])]:
        sets = [E for E in subsets(d + p, p) if E]
        pairs = list(itertools.product(sets, sets))
        if tier == "quick":
            pairs = rng.sample(pairs, min(len(pairs), 2500 if fam == "leo8" and d == 4 else 800))
        for (E1, E2) in pairs:
            for mode in (["all", "data"] if tier == "thorough" else [rng.choice(["all", "data"])]):
                size = rng.choice(sizes)
                m2 = rng.choice(["all", "data"])
                ops.append((f"hist {fam} - {d} {p} ; " + sub_r(rng, d, p, size, E1, mode, []) + " ; " + sub_r(rng, d, p, size, E2, m2, []),
                            {"cat": f"pairs-{fam}", "n": 2 if E1 != E2 else 1}))
    # long collision-biased histories
    confs = [("default", "-", 5, 3), ("default", "ic-", 5, 3), ("cauchy", "-", 10, 4), ("default", "-", 20, 10),
             ("leo8", "-", 8, 8), ("leo8", "-", 5, 3), ("leo8", "-", 20, 12), ("leo8", "-", 40, 20), ("leo8", "-", 100, 30),
             ("leo16", "-", 8, 8), ("leo16", "-", 5, 3), ("default", "nosimd", 4, 3), ("leo8", "nosimd", 8, 8)]
    nh = 25 if tier == "quick" else 400
    for (fam, opts, d, p) in confs:
        leo = fam.startswith("leo")
        for _ in range(nh):
            subs = []
            base = sorted(rng.sample(range(d), rng.randint(1, min(d, p))))     # shared data part
            big = (65536 // (d + p)) // 64 * 64 + 64
            for _ in range(rng.randint(5, 14 if tier == "quick" else 40)):
                r = rng.random()
                size = rng.choice([64, 128, big, big - 64, 4096]) if leo else rng.choice([1, 10, 64, 100, 1000, 4097])
                if d * p * size > 3_000_000:
                    size = 64
                if r < 0.75:
                    k = rng.random()
                    if k < 0.3:
                        E = list(base)
                    elif k < 0.6:     # same data part, one parity index more / different
                        E = sorted(set(base[:max(0, p - 1)]) | {d + rng.randrange(p)})
                    elif k < 0.8:     # pairing bits {2i} vs {2i,2i+1}
                        i = rng.randrange((d + p) // 2)
                        E = [2 * i] if rng.random() < 0.5 or p < 2 else [2 * i, 2 * i + 1]
                    else:
                        E = sorted(rng.sample(range(d + p), rng.randint(0, p + 1)))
                    E = E[:p + 1]
                    subs.append(sub_r(rng, d, p, size, E))
                elif r < 0.9:
                    subs.append(f"e {size} {rng.randrange(1, 1<<20)}")
                else:
                    fs = rng.choice([-1, rng.randrange(d + p)])
                    subs.append(f"v {size} {rng.randrange(1, 1<<20)} {fs} {rng.randrange(size)}")
            ops.append((f"hist {fam} {opts} {d} {p} ; " + " ; ".join(subs), {"cat": f"long-{fam}", "n": len(subs)}))
    # pooled scratch of the generated-kernel paths: SMALL serial calls (below minSplitSize, few outputs) followed by LARGE
    # goroutine-split calls with more than 10 outputs on ONE encoder (AVX2 rows: the block planner slices the pooled buffer)
    for (fam, opts, d, p) in [("default", "gfni-,avxgfni-", 4, 12), ("default", "gfni-,avxgfni-", 6, 11), ("cauchy", "gfni-,avxgfni-", 10, 16),
                              ("default", "-", 4, 12), ("default", "gfni-,avxgfni-", 4, 6)]:
        for _ in range(4 if tier == "quick" else 40):
            subs = []
            for _ in range(rng.randint(2, 5)):
                E = sorted(rng.sample(range(d + p), rng.randint(1, 2)))
                subs.append(sub_r(rng, d, p, rng.choice([64, 256, 1000, 2048]), E))
                big = rng.choice([65536, 100000, 200000])
                subs.append(rng.choice([f"e {big} {rng.randrange(1, 1<<20)}", f"v {big} {rng.randrange(1, 1<<20)} -1 0",
                                        sub_r(rng, d, p, big, sorted(rng.sample(range(d, d + p), min(p, 11))), "all", [])]))
            ops.append((f"guard hist {fam} {opts} {d} {p} ; " + " ; ".join(subs), {"cat": "pool-small-then-large", "n": len(subs)}))
    # GF8 locator cache forced on large shard counts: erasure sets that differ in ONE index anywhere in 0..d+p
    for (d, p) in [(200, 32), (128, 128), (180, 64), (100, 30), (60, 4), (251, 4)]:
        m = 1
        while m < p:
            m *= 2
        if d + m > 256:
            continue
        for _ in range(8 if tier == "quick" else 120):
            k = rng.randint(1, min(p, 4))
            E1 = sorted(rng.sample(range(d + p), k))
            subs = []
            for _ in range(rng.randint(3, 6)):
                E2 = list(E1)
                E2[rng.randrange(k)] = rng.randrange(d + p)      # one index replaced, anywhere
                E2 = sorted(set(E2))
                for E in (E1, E2):
                    subs.append(sub_r(rng, d, p, 64, E, rng.choice(["all", "data"]), []))
            ops.append((f"hist leo8 ic+ {d} {p} ; " + " ; ".join(subs), {"cat": "forced-cache-leo8", "n": len(subs)}))
    # unit level: the cache key is the complete erasure set (bit i of 256)
    for _ in range(200 if tier == "quick" else 5000):
        pos = sorted(rng.sample(range(256), rng.choice([1, 1, 2, 3, 8, 40])))
        ops.append((f"bfkey {lst(pos)}", {"cat": "bfkey", "n": 2}))
    for i in range(256):
        ops.append((f"bfkey {i}", {"cat": "bfkey", "n": 2}))
    return ops + tree_ops(tier, rng)


def tree_ops(tier, rng):
    """unit-level tie of the trie model: random insert/get sequences with strictly increasing keys,
    biased towards neighbouring keys ([a,b] vs [a,b+1], prefixes, shared first index)"""
    ops = []
    for _ in range(150 if tier == "quick" else 3000):
        d = rng.randint(2, 10); p = rng.randint(1, 6); n = d + p
        keys = []
        for _ in range(rng.randint(2, 6)):
            k = sorted(rng.sample(range(n), rng.randint(1, min(p, n))))
            keys.append(k)
            if rng.random() < 0.7:      # a neighbour: shift the tail by one
                k2 = k[:1] + [min(n - 1, x + 1) for x in k[1:]]
                if k2 == sorted(set(k2)):
                    keys.append(k2)
            if rng.random() < 0.3 and len(k) > 1:
                keys.append(k[:-1])
        subs, tag = [], 1
        for _ in range(rng.randint(6, 20)):
            k = rng.choice(keys)
            if rng.random() < 0.45:
                subs.append(f"i {lst(k)} {tag}"); tag = tag % 250 + 1
            else:
                subs.append(f"g {lst(k)}")
        subs += [f"g {lst(k)}" for k in keys] + ["g -"]
        ops.append((f"tree {d} {p} ; " + " ; ".join(subs), {"cat": "tree", "n": 2}))
    return ops


def corpus_ops():
    # D2a / D2b (fixed by f76f5f8)
    return [("hist leo8 - 8 8 ; r 64 5 data 0 - nil ; r 64 5 data 0,12 - nil", {"cat": "corpus", "n": 2}),
            ("hist leo8 - 8 8 ; r 4096 5 all 0 - nil ; r 4096 5 all 0,1 - nil", {"cat": "corpus", "n": 2})]


def flag_check(line, meta, flags):
    if flags.get("l1") == "0":
        return "word-level bit-field model (BitfieldImpl.cacheID) disagrees with the L0 cache key"
    return None


def execute(ops, ctx):
    def key(line, meta, g):
        return line if meta.get("n", 0) >= 2 else None
    return C.execute_diff(ops, ctx, key, flag_check)
