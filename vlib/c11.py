"""C11 — one encoder is safe to use from many goroutines at once."""
import os, subprocess
from . import common as C
from .gens import *
from . import c10

PROP = "C11"
LEAN_MODULE = "RSV.Props.C11all"
LEANCHECKER = True
RULE = ("proof: C11_linearizable / C11_matrix - for EVERY schedule of the lock-atomic interleaving model (lookup under the read "
        "lock, compute outside, insert under the write lock) and any number of callers, the cache stays sound and every caller "
        "gets exactly what it would get alone; the inversion tree is a lawful instance (C11_tree_lawful). Correspondence: the "
        "harness is built with -race; N goroutines x GOMAXPROCS share ONE encoder per codec (and one StreamEncoder), start on a "
        "barrier, loop over collision-biased operation lists on their own shard sets; every answer is compared with a fresh "
        "encoder's answer computed sequentially and with the model's error class; readers hash data shards during Encode/Verify; "
        "any race report fails the run. A case = one concurrent batch; non-trivial = >=2 goroutines")
ASSUMPTIONS = ["the theorem quantifies over schedules of the MODEL whose steps are atomic where the code holds a lock or calls "
               "sync.Pool; data races inside a step are only detectable by the race detector on the sampled schedules",
               "Go memory model, sync.Pool, sync.RWMutex are modelled, not verified"]
TRUSTED = ["Go race detector (ThreadSanitizer runtime)"]


def gen_ops(tier, rng):
    ops = []
    cells = [(2, 1), (2, 4), (8, 4), (8, 16), (48, 16), (8, 1)] if tier == "quick" else [(n, g) for n in (2, 8, 48) for g in (1, 4, 16)]
    confs = [("default", "-", 5, 3, None), ("default", "ic-", 5, 3, None), ("cauchy", "ms=64,g=4", 10, 4, None),
             ("leo8", "-", 8, 8, None), ("leo8", "-", 20, 12, None), ("leo16", "-", 8, 8, None),
             # shards above minSplitSize: the internal chunk workers and the per-encoder scratch pools (expanded coding
             # matrices of the generated AVX2 / GFNI kernels) are shared by callers that use DIFFERENT matrices
             ("default", "gfni-,avxgfni-", 10, 4, [65536, 262144, 100000]), ("default", "-", 10, 4, [65536, 262144]),
             ("cauchy", "gfni-,avxgfni-", 6, 6, [131072, 70000]), ("default", "gfni-,avxgfni-,avx2-", 10, 4, [65536, 100000]),
             ("default", "avx2-", 12, 11, [65536, 100000])]
    reps = 1 if tier == "quick" else 6
    for (fam, opts, d, p, bigsizes) in confs:
        leo = fam.startswith("leo")
        for (n, gmp) in cells:
            if bigsizes and (n > 8 or (tier == "quick" and gmp == 1)):
                continue
            for _ in range(reps):
                # a few erasure sets shared by many goroutines: they miss and insert the same key at once
                hot = [sorted(rng.sample(range(d + p), rng.randint(1, p))) for _ in range(3)]
                lists = []
                for g in range(n):
                    subs = []
                    for _ in range(rng.randint(3, 8)):
                        size = rng.choice(bigsizes) if bigsizes else rng.choice([64, 128, 4096]) if leo else rng.choice([10, 64, 100, 1000, 4097])
                        r = rng.random()
                        if r < 0.7:
                            E = rng.choice(hot) if rng.random() < 0.7 else sorted(rng.sample(range(d + p), rng.randint(0, p)))
                            subs.append(c10.sub_r(rng, d, p, size, E))
                        elif r < 0.85:
                            subs.append(f"e {size} {rng.randrange(1, 1<<20)}")
                        else:
                            subs.append(f"v {size} {rng.randrange(1, 1<<20)} {rng.choice([-1, rng.randrange(d+p)])} {rng.randrange(size)}")
                    lists.append("g ; " + " ; ".join(subs))
                ops.append((f"conc {fam} {opts} {d} {p} {gmp} ; " + " ; ".join(lists), {"cat": f"conc-{fam}", "n": n}))
    for (fam, opts, d, p, size) in [("default", "-", 5, 3, 100000), ("default", "g=8,ms=1024", 10, 4, 300000), ("leo8", "-", 8, 8, 65536), ("leo16", "-", 8, 8, 8192)]:
        ops.append((f"concread {fam} {opts} {d} {p} {size} {10 if tier=='quick' else 200}", {"cat": "concread", "n": 4}))
    for conc in ["-", "c"]:
        for (n, gmp) in [(8, 4), (16, 16), (4, 1)]:
            ops.append((f"concstream 3 2 64 1000 {n} {gmp} {conc}", {"cat": "concstream", "n": n}))
            ops.append((f"concstream 10 4 4096 50000 {n} {gmp} {conc}", {"cat": "concstream", "n": n}))
    # a caller whose call FAILS (one stream errors at once, the others are slow) next to healthy callers on one StreamEncoder
    for (n, gmp) in [(4, 1), (4, 4), (8, 16)]:
        ops.append((f"concstreamf 4 2 65536 200000 {n} {gmp} {6 if tier == 'quick' else 40}", {"cat": "concstream-fault", "n": n}))
        ops.append((f"concstreamf 3 2 256 3000 {n} {gmp} {10 if tier == 'quick' else 60}", {"cat": "concstream-fault", "n": n}))
    # n goroutines released together on ONE fresh erasure pattern per round (all miss and insert the same key), then a
    # sequential call with another fresh pattern (needs the exclusive lock); under the watchdog
    for (fam, opts, d, p, n, gmp) in [("default", "-", 48, 16, 8, 8), ("default", "-", 10, 4, 8, 1), ("cauchy", "-", 20, 10, 16, 16),
                                      ("default", "-", 5, 3, 4, 4), ("leo8", "-", 20, 12, 8, 8), ("leo16", "-", 8, 8, 8, 4)]:
        for rep in range(1 if tier == "quick" else 5):
            ops.append((f"guard concsame {fam} {opts} {d} {p} {gmp} {n} {24 if tier == 'quick' else 60} {rng.randrange(1, 1<<30)}",
                        {"cat": "conc-same-pattern", "n": n}))
    return ops


def prepare(tier):
    return {"race": C.build_harness(tags="verif", name="harness_race_bin") if False else None}


def execute(ops, ctx):
    # build the harness with the race detector
    dst = os.path.join(C.BIN, "harness_race")
    rc, out = C.sh(["go", "build", "-race", "-tags", "verif", "-o", dst, "."], cwd=os.path.join(C.VERIF, "harness"), env=C.GOENV, timeout=900)
    if rc != 0:
        raise C.CheckBroken("go build -race failed:\n" + out[-2000:])
    ctx2 = dict(ctx, harness=dst)
    env = dict(os.environ, GORACE="halt_on_error=0 exitcode=0 log_path=" + os.path.join(C.WORK, "race_report"))
    for f in os.listdir(C.WORK):
        if f.startswith("race_report"):
            os.remove(os.path.join(C.WORK, f))

    def key(line, meta, g):
        return line[:200] if meta.get("n", 0) >= 2 else None
    res = C.execute_diff(ops, ctx2, key, env=env, jobs=4)
    reports = [f for f in os.listdir(C.WORK) if f.startswith("race_report")]
    for f in reports:
        txt = open(os.path.join(C.WORK, f)).read()
        if "DATA RACE" in txt:
            res["mismatches"].append({"kind": "data-race", "ops": [], "go": txt[:3000], "model": "no data race", "cat": "race"})
            break
    res.setdefault("extra", {})["race_reports"] = len(reports)
    return res
