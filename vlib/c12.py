"""C12 — progressive (EncodeIdx) and incremental (Update) encoding equal one-shot Encode."""
import itertools
from . import common as C
from .gens import *

PROP = "C12"
LEAN_MODULE = "RSV.Props.C12"
RULE = ("proof: C12_idx_any_order (every permutation of deliveries from zeroed parity gives encodeSpec), C12_idx_partial, "
        "C12_idx_general, C12_update (delta rule for every subset of changed shards, unchanged ones optionally absent). "
        "Correspondence: EncodeIdx in all permutations for d<=5 and seeded orders, Update over all non-empty subsets for d<=6, sizes "
        "around perRound/minSplitSize/code-gen thresholds, mismatching new-shard sizes (must be rejected, guard zones intact). "
        "A case = one op line; non-trivial = d>=2 and p>=1")
ASSUMPTIONS = ["default matrix family (the kernels are family-independent)", "hashes stand for shard contents"]
TRUSTED = []


def gen_ops(tier, rng):
    ops = []
    sizes = SIZES_SMALL + SIZES_MID
    for d in range(1, 6 if tier == "quick" else 8):
        for perm in itertools.permutations(range(d)):
            if d >= 5 and tier == "quick" and rng.random() < 0.5:
                continue
            p = rng.randint(1, 4)
            ops.append((f"idx {rng.choice(OPTSETS)} {d} {p} {rng.choice(SIZES_SMALL)} {rng.randrange(1, 1<<30)} {lst(perm)}", {"cat": "idx-perm", "d": d}))
    for _ in range(300 if tier == "quick" else 10000):
        d = rng.randint(1, 40)
        p = rng.randint(1, 12)
        order = list(range(d))
        rng.shuffle(order)
        size = rng.choice(sizes + [262144 + 17, 1 << 20])
        if d * p * size > 4_000_000:
            size = rng.choice(SIZES_SMALL)
        ops.append((f"idx {rng.choice(OPTSETS)} {d} {p} {size} {rng.randrange(1, 1<<30)} {lst(order)}", {"cat": "idx-seeded", "d": d}))
    # partial deliveries
    for _ in range(60):
        d = rng.randint(2, 12)
        order = rng.sample(range(d), rng.randint(0, d - 1))
        ops.append((f"idx - {d} {rng.randint(1,4)} {rng.choice(SIZES_SMALL)} {rng.randrange(1, 1<<30)} {lst(order)}", {"cat": "idx-partial", "d": d}))
    # EncodeIdx through the generated kernels with more than 10 parity shards whose last group of ten holds 1..3 of them (the
    # 64-byte and the 32-byte kernels meet), sizes with every tail class, GFNI on and off, one and several goroutines
    for (d, p) in [(4, 11), (3, 13), (2, 23), (12, 12), (4, 14), (2, 10)]:
        for o in ["-", "gfni-,avxgfni-", "gfni-,avxgfni-,g=1", "gfni-,avxgfni-,avx2-", "gfni-,avxgfni-,ms=2048"]:
            for size in [4096 + 40, 4096 + 32, 8192 + 63, 8192, 30000 + 1064 % 64 + 32]:
                order = list(range(d)); rng.shuffle(order)
                ops.append((f"idx {o} {d} {p} {size} {rng.randrange(1, 1<<30)} {lst(order)}", {"cat": "idx-groups", "d": max(d, 2)}))
    # invalid idx / parity mismatch
    ops.append(("idx - 4 2 10 5 4", {"cat": "idx-badidx", "d": 4}))
    # EncodeIdx with a data shard whose length differs from the parity shards: ErrShardSize, parity untouched (both the
    # serial per-round path and the code-generated path; shorter and longer by one byte, by a SIMD block, by far)
    for (d, p) in [(4, 2), (1, 1), (5, 3), (10, 4), (2, 13)]:
        for size in [1, 10, 64, 100, 2752, 2753 + 64, 70000]:
            for n in sorted({0, 1, size - 1, size + 1, size - 64, size + 64, size // 2, size * 2}):
                if n < 0 or n == size:
                    continue
                ops.append((f"idxbad {rng.choice(OPTSETS)} {d} {p} {size} {rng.randrange(1, 1<<30)} {rng.randrange(d)} {n}", {"cat": "idx-mismatch", "d": 2}))
        ops.append((f"idxbad - {d} {p} 100 {rng.randrange(1, 1<<30)} {rng.randrange(d)} 100", {"cat": "idx-match", "d": 2}))
        ops.append((f"idxbad - {d} {p} 100 {rng.randrange(1, 1<<30)} {d} 100", {"cat": "idx-badidx", "d": 2}))
    # Update: all non-empty subsets for small d
    for d in range(1, 7 if tier == "quick" else 9):
        for k in range(1, d + 1):
            for S in itertools.combinations(range(d), k):
                if tier == "quick" and d >= 6 and rng.random() < 0.5:
                    continue
                nils = [c for c in range(d) if c not in S and rng.random() < 0.5]
                ops.append((f"upd {rng.choice(OPTSETS)} {d} {rng.randint(1,4)} {rng.choice(SIZES_SMALL + SIZES_MID[:6])} {rng.randrange(1, 1<<30)} {lst(S)} {lst(nils)}",
                            {"cat": "upd-subset", "d": d}))
    for _ in range(200 if tier == "quick" else 5000):
        d = rng.randint(1, 30)
        p = rng.randint(1, 10)
        S = sorted(rng.sample(range(d), rng.randint(1, d)))
        nils = [c for c in range(d) if c not in S and rng.random() < 0.5]
        size = rng.choice(sizes)
        if d * p * size > 4_000_000:
            size = rng.choice(SIZES_SMALL)
        ops.append((f"upd {rng.choice(OPTSETS)} {d} {p} {size} {rng.randrange(1, 1<<30)} {lst(S)} {lst(nils)}", {"cat": "upd-seeded", "d": d}))
    # Update on the goroutine-split path with worker windows far above 32 KiB (shards of 128 KiB .. 1 MiB), few and many
    # goroutines, every tail class
    for (d, p, size, o) in [(10, 4, 131136, "-"), (10, 4, 262144 + 17, "-"), (5, 3, (1 << 20) + 17, "-"), (5, 3, 200000, "g=2"),
                            (4, 2, 524288 + 33, "g=3,ms=1024"), (12, 13, 300000, "gfni-,avxgfni-"), (3, 2, (1 << 20), "nosimd,g=4")]:
        S = sorted(rng.sample(range(d), rng.randint(1, d)))
        ops.append((f"upd {o} {d} {p} {size} {rng.randrange(1, 1<<30)} {lst(S)} -", {"cat": "upd-large", "d": max(d, 2)}))
    # empty but non-nil entries in newDatashards mean "not changed" (regression of fix 6e0b732)
    for _ in range(40 if tier == "quick" else 500):
        d = rng.randint(2, 10); p = rng.randint(1, 4)
        S = sorted(rng.sample(range(d), rng.randint(1, d - 1)))
        rest = [c for c in range(d) if c not in S]
        empt = sorted(rng.sample(rest, rng.randint(1, len(rest))))
        ops.append((f"upd {rng.choice(OPTSETS)} {d} {p} {rng.choice(SIZES_SMALL + [2000, 5000])} {rng.randrange(1, 1<<30)} {lst(S)} - e:{lst(empt)}",
                    {"cat": "upd-empty-entry", "d": d}))
    # mismatching sizes must be rejected
    for (size, nl) in [(100, 300), (300, 100), (100, 101), (100, 99), (64, 128), (128, 64), (1000, 1063), (4096, 4296), (100, 163), (163, 100)]:
        for o in ["-", "nosimd", "g=4,ms=64"]:
            ops.append((f"upd {o} 4 2 {size} 5 1 - {nl}", {"cat": "upd-mismatch", "d": 4}))
    # several changed shards of which a LATER one has the wrong size (the first is fine)
    for _ in range(60 if tier == "quick" else 1000):
        d = rng.randint(3, 10); p = rng.randint(1, 4)
        S = sorted(rng.sample(range(d), rng.randint(2, d)))
        bad = rng.choice(S[1:])
        size = rng.choice([64, 100, 1000, 5000])
        nl = rng.choice([1, size - 1, size + 1, size // 2, size + 64, 2 * size])
        ops.append((f"upd {rng.choice(['-', 'g=1', 'nosimd', 'ms=64,g=4'])} {d} {p} {size} {rng.randrange(1, 1<<30)} {lst(S)} - l:{bad}:{nl}",
                    {"cat": "upd-later-mismatch", "d": d}))
    return ops


def corpus_ops():
    return [("upd - 4 2 100 5 1 - 300", {"cat": "corpus", "d": 4}), ("upd - 4 2 300 5 1 - 100", {"cat": "corpus", "d": 4}),
            ("upd - 5 3 1000 5 1 - e:3", {"cat": "corpus", "d": 5}), ("upd g=1 5 3 1000 5 1 - e:3", {"cat": "corpus", "d": 5})]


def flag_check(line, meta, flags):
    if flags.get("m") == "0" or flags.get("l1") == "0":
        return "driver self-check failed (fast path / L1 fold vs L0)"
    return None


def execute(ops, ctx):
    def key(line, meta, g):
        return line if meta.get("d", 0) >= 2 else None
    res = C.execute_diff(ops, ctx, key, flag_check)
    # frame part of the rejection: guard zones around every shard stay intact, no panic
    gops = [f"updguard {o} 4 2 {size} 5 1 {nl}" for (size, nl) in [(100, 300), (300, 100), (64, 128), (100, 163)] for o in ["-", "nosimd"]]
    gout = C.run_ops(ctx["harness"], gops, jobs=1)
    for o, g in zip(gops, gout):
        res["evaluations"] += 1
        if g != "err ShardSize guards-intact":
            res["mismatches"].append({"kind": "mismatched-size-not-rejected", "ops": [o], "go": g, "model": "err ShardSize guards-intact", "cat": "upd-guard"})
    return res
