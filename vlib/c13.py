"""C13 — Split and Join are inverse, with zero padding and directly encodable shards."""
from . import common as C
from .gens import *

PROP = "C13"
LEAN_MODULE = "RSV.Props.C13all"
RULE = ("proof: for every input length, (d,p), rounding q and every amount/content of spare capacity the modelled Split equals "
        "its specification (input followed by zeros cut into d+p equal shards whose length is a multiple of q), Join of the "
        "result with outSize = len returns the input, and Join's error cases write nothing. Correspondence: Split of every length "
        "1..3000 x shapes x spare capacities pre-filled with 0xA5 (count, length, contents, aliasing, Encode accepts the result), "
        "Join with every truncation / nil pattern / outSize. A case = one op line; non-trivial = successful call with len >= 2")
ASSUMPTIONS = ["hashes stand for contents", "aliasing is observed by pointer range on the Go side and predicted by splitAliased"]
TRUSTED = []

SHAPES = [("default", 1, 0), ("default", 1, 1), ("default", 2, 1), ("default", 3, 2), ("default", 5, 3), ("default", 10, 4),
          ("default", 17, 3), ("default", 255, 1), ("leo8", 2, 1), ("leo8", 5, 3), ("leo16", 3, 2), ("leo16", 10, 4), ("default", 4, 0),
          # one data shard with parity (the "nothing to split" shortcuts), one parity shard, Leopard codecs
          ("leo8", 1, 1), ("leo8", 1, 3), ("leo16", 1, 2), ("leo8", 4, 1), ("leo16", 1, 1)]


def gen_ops(tier, rng):
    ops = []
    maxlen = 3000 if tier == "quick" else 20000
    step = 1
    for (fam, d, p) in SHAPES:
        q = 64 if fam.startswith("leo") else 1
        lens = list(range(1, 400)) + list(range(400, maxlen, 37 if tier == "quick" else 7))
        if tier == "quick" and d > 10:
            lens = lens[::5]
        for n in lens:
            per = ((n + d - 1) // d + q - 1) // q * q
            need = (d + p) * per - n
            for spare in sorted({0, 1, max(0, need - 1), need, need + 1, 2 * need + 3}):
                if tier == "quick" and n > 130 and rng.random() < 0.75:
                    continue
                ops.append((f"split {fam} {d} {p} {n} {spare} {rng.randrange(1, 1<<30)}", {"cat": "split", "n": n}))
    for _ in range(40 if tier == "quick" else 400):
        fam, d, p = rng.choice(SHAPES)
        n = rng.randrange(3000, 300000)
        ops.append((f"split {fam} {d} {p} {n} {rng.choice([0, 1, 64, n, 3*n])} {rng.randrange(1, 1<<30)}", {"cat": "split-large", "n": n}))
    ops.append(("split default 3 2 0 5 1", {"cat": "split-empty", "n": 0}))
    # Join
    for (fam, d, p) in SHAPES:
        q = 64 if fam.startswith("leo") else 1
        for n in [1, 2, 3, 7, 10, 63, 64, 65, 100, 129, 1000]:
            per = ((n + d - 1) // d + q - 1) // q * q
            for out in sorted({-1, 0, 1, n - 1, n, n + 1, d * per, d * per + 1, per, per + 1}):
                for given in sorted({0, d - 1, d, d + p}):
                    if given < 0:
                        continue
                    nils = rng.choice([[], [], [rng.randrange(d + p)], [0], [d - 1]])
                    ops.append((f"join {fam} {d} {p} {n} {out} {lst(nils)} {given} {rng.randrange(1, 1<<30)}", {"cat": "join", "n": n}))
    return ops


def flag_check(line, meta, flags):
    if flags.get("l0") == "0":
        return "L1 algorithm disagrees with the L0 specification (input ++ zeros)"
    if flags.get("eq") == "0":
        return "shards of unequal length"
    return None


def execute(ops, ctx):
    def key(line, meta, g):
        return line if g and g.startswith("ok") and meta.get("n", 0) >= 2 else None
    return C.execute_diff(ops, ctx, key, flag_check)
