"""C14 — the streaming API is byte-for-byte equivalent to the in-memory API."""
from . import common as C
from .gens import *

PROP = "C14"
LEAN_MODULE = "RSV.Props.C14"
RULE = ("proof: for every stream length, block size and block codec that is column-local, the modelled block loops of stream "
        "Encode/Verify/Reconstruct deliver to each writer exactly what the in-memory call computes on the whole streams "
        "(induction over blocks), independent of how readers fragment (readFull abstracts fragmentation); stream Split/Join "
        "round-trip. Correspondence: real StreamEncoder with seeded fragmenting readers (1 byte .. full, 0-byte reads, n>0 with "
        "EOF) vs the model, block sizes x lengths around block boundaries x shapes x all valid/fill assignments for small "
        "d+p x sequential/concurrent I/O. A case = one op line; non-trivial = total stream length >= 2 blocks or a partial block")
ASSUMPTIONS = ["io.ReadFull / io.CopyN / io.MultiReader behave as documented (re-modelled, exercised by fragmenting readers)",
               "writer contents are compared by FNV-1a 64 hash and length"]
TRUSTED = []


def gen_ops(tier, rng):
    ops = []
    Bs = [1, 2, 7, 64, 1000, 4096] if tier == "quick" else [1, 2, 3, 7, 64, 100, 1000, 4096, 65536]
    shapes = [(2, 1), (3, 2), (1, 1), (5, 3), (4, 4), (10, 4), (20, 10)] + ([(200, 56)] if tier == "thorough" else [])
    for B in Bs:
        Ls = sorted({1, max(1, B - 1), B, B + 1, 2 * B - 1, 2 * B, 2 * B + 1, 5 * B + 3, 3 * B})
        for L in Ls:
            if L > 350_000:      # the list-based stream model appends writer contents quadratically
                continue
            for (d, p) in shapes:
                if (d * p * L > 1_000_000) or (B <= 2 and d + p > 8 and L > 10) or (B == 1 and L > 40):
                    continue
                for conc in ["-", "c"]:
                    for frag in ([1] if tier == "quick" else [1, 1, 0]):
                        seed = rng.randrange(1, 1 << 30)
                        ops.append((f"sencode {d} {p} {B} {lst([L]*d)} - {seed} {conc} {frag}", {"cat": "encode", "L": L, "B": B}))
                        ops.append((f"sverify {d} {p} {B} {L} - - - {seed} {conc} {frag}", {"cat": "verify", "L": L, "B": B}))
                        if L > 1 and rng.random() < 0.5:
                            ops.append((f"sverify {d} {p} {B} {L} - {rng.randrange(d+p)}:{rng.randrange(L)} - {seed} {conc} {frag}", {"cat": "verify-flip", "L": L, "B": B}))
    # Reconstruct: all valid/fill assignments for small d+p
    for (d, p) in [(2, 1), (1, 2), (2, 2), (3, 2)] if tier == "quick" else [(2, 1), (1, 2), (2, 2), (3, 2), (2, 3), (3, 3)]:
        n = d + p
        for missing in subsets(n, p):
            valid = [i for i in range(n) if i not in missing]
            for fill in subsets(n, n):
                if any(f in valid for f in fill) and rng.random() < 0.8:
                    continue      # mismatch cases sampled
                if tier == "quick" and rng.random() < 0.4:
                    continue
                B = rng.choice([7, 64])
                L = rng.choice([1, B - 1, B, B + 1, 3 * B + 5])
                ops.append((f"srecon {d} {p} {B} {L} {lst(valid)} {lst(fill)} - - {rng.randrange(1,1<<30)} {rng.choice(['-','c'])} 1",
                            {"cat": "recon", "L": L, "B": B}))
    for _ in range(100 if tier == "quick" else 3000):
        d = rng.randint(1, 12); p = rng.randint(1, 6); n = d + p
        missing = rng.sample(range(n), rng.randint(0, p))
        valid = [i for i in range(n) if i not in missing]
        fill = [m for m in missing if rng.random() < 0.8]
        B = rng.choice([7, 64, 100, 1000]); L = rng.choice([B - 1, B, B + 1, 2 * B, 3 * B + 5, 1])
        if L < 1: L = 1
        ops.append((f"srecon {d} {p} {B} {L} {lst(valid)} {lst(fill)} - - {rng.randrange(1,1<<30)} {rng.choice(['-','c'])} 1", {"cat": "recon-seeded", "L": L, "B": B}))
    # Split / Join round trips
    for (d, p) in [(1, 0), (2, 1), (3, 2), (5, 3), (10, 4)]:
        for size in [1, 2, 3, 10, 63, 64, 65, 100, 1000, 4097]:
            ops.append((f"ssplit {d} {p} {size} {size} - {rng.randrange(1,1<<30)}", {"cat": "split", "L": size, "B": 1}))
        for L in [1, 10, 64, 100]:
            for out in sorted({0, 1, L, d * L - 1, d * L, d * L + 1}):
                ops.append((f"sjoin {d} {p} {L} {out} {d+p} - {rng.randrange(1,1<<30)}", {"cat": "join", "L": L, "B": 1}))
                ops.append((f"sjoin {d} {p} {L} {out} {d} - {rng.randrange(1,1<<30)}", {"cat": "join", "L": L, "B": 1}))
        # Split wants exactly DataShards writers: fewer or more (up to and beyond TotalShards) are ErrInvShardNum, nothing written
        for nw in sorted({max(0, d - 1), d + 1, d + p, d + p + 1} - {d}):
            ops.append((f"ssplit {d} {p} 100 100 - {rng.randrange(1,1<<30)} {nw}", {"cat": "split-writer-count", "L": 100, "B": 1}))
        # Join considers the data streams only: a nil or failing reader in a PARITY position changes nothing, one in a data
        # position is reported; every index, all d+p readers given
        for i in range(d + p):
            ops.append((f"sjoin {d} {p} 64 {d * 64 - 1} {d+p} nilr:{i} {rng.randrange(1,1<<30)}", {"cat": "join-nil-any", "L": 64, "B": 1}))
            ops.append((f"sjoin {d} {p} 64 {d * 64} {d+p} r:{i}:{rng.choice([0, 10, 63])} {rng.randrange(1,1<<30)}", {"cat": "join-readerr-any", "L": 64, "B": 1}))
    return ops


def execute(ops, ctx):
    def key(line, meta, g):
        return line if meta.get("L", 0) >= 2 else None
    return C.execute_diff(ops, ctx, key)
