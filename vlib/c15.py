"""C15 — stream faults and unequal streams are reported, never accepted."""
from . import common as C
from .gens import *

PROP = "C15"
LEAN_MODULE = "RSV.Props.C15"
RULE = ("proof: in the stream model a reader fault yields StreamReadError naming the stream, a failing or short-writing writer "
        "StreamWriteError (io.ErrShortWrite), streams of unequal length - wherever the shorter one ends, including on a block "
        "boundary - yield an error (Verify never true), Split with a short source ErrShortData and never passes surplus bytes. "
        "Correspondence: EVERY (stream, offset 0..L, fault kind) on small streams for Encode/Verify/Reconstruct/Split/Join, "
        "sequential and concurrent, vs the model incl. the bytes each writer received. A case = one op line; non-trivial = a fault "
        "or length mismatch is injected")
ASSUMPTIONS = ["one fault per call (pairs of faults only in the thorough tier)",
               "concurrent mode: with a single fault the reported stream index is deterministic"]
TRUSTED = []


def gen_ops(tier, rng):
    ops = []
    shapes = [(2, 1), (3, 2), (1, 2)] if tier == "quick" else [(2, 1), (3, 2), (5, 3), (1, 2)]
    for (d, p) in shapes:
        B = 64
        L = 3 * B + 5
        n = d + p
        seed = rng.randrange(1, 1 << 30)
        offs = list(range(0, L + 1)) if tier == "thorough" or d == 2 else sorted(set(list(range(0, 70)) + list(range(120, 135)) + list(range(185, L + 1))))
        for conc in ["-", "c"]:
            for i in range(d):
                for k in offs:
                    ops.append((f"sencode {d} {p} {B} {lst([L]*d)} r:{i}:{k} {seed} {conc} 1", {"cat": "enc-readerr", "f": 1}))
                    if k % 3 == 0 or k >= L - 2 or k % B == 0:
                        # the reader's error merely wraps io.EOF / io.ErrUnexpectedEOF: still a failure of that stream
                        ops.append((f"sencode {d} {p} {B} {lst([L]*d)} r{rng.choice('wu')}:{i}:{k} {seed} {conc} 1", {"cat": "enc-readerr-wrapped", "f": 1}))
                    # early EOF / surplus: stream i has k bytes
                    lens = [L] * d; lens[i] = k
                    ops.append((f"sencode {d} {p} {B} {lst(lens)} - {seed} {conc} 1", {"cat": "enc-unequal", "f": 1 if k != L and d >= 2 else 0}))
            for i in range(d):
                for extra in [1, B - 5, B, B + 1]:
                    lens = [L] * d; lens[i] = L + extra
                    ops.append((f"sencode {d} {p} {B} {lst(lens)} - {seed} {conc} 1", {"cat": "enc-surplus", "f": 1 if d >= 2 else 0}))
            for j in range(p):
                for k in offs:
                    for kind in ["", ":short"]:
                        ops.append((f"sencode {d} {p} {B} {lst([L]*d)} w:{j}:{k}{kind} {seed} {conc} 1", {"cat": "enc-writeerr", "f": 1 if k < L else 0}))
            for i in range(n):
                for k in offs:
                    ops.append((f"sverify {d} {p} {B} {L} - - r:{i}:{k} {seed} {conc} 1", {"cat": "ver-readerr", "f": 1}))
                    if k % 3 == 0 or k >= L - 2 or k % B == 0:
                        ops.append((f"sverify {d} {p} {B} {L} - - r{rng.choice('wu')}:{i}:{k} {seed} {conc} 1", {"cat": "ver-readerr-wrapped", "f": 1}))
                    ops.append((f"sverify {d} {p} {B} {L} {i}:{k} - - {seed} {conc} 1", {"cat": "ver-truncated", "f": 1 if k != L else 0}))
                for extra in [1, B, B + 1]:
                    ops.append((f"sverify {d} {p} {B} {L} {i}:{L+extra} - - {seed} {conc} 1", {"cat": "ver-surplus", "f": 1}))
            # Reconstruct with three fill masks
            for missing in [[0], [n - 1], [0, n - 1][:p]]:
                valid = [i for i in range(n) if i not in missing]
                for i in valid:
                    for k in offs[::2] if tier == "quick" else offs:
                        ops.append((f"srecon {d} {p} {B} {L} {lst(valid)} {lst(missing)} - r:{i}:{k} {seed} {conc} 1", {"cat": "rec-readerr", "f": 1}))
                        ops.append((f"srecon {d} {p} {B} {L} {lst(valid)} {lst(missing)} - r{rng.choice('wu')}:{i}:{k} {seed} {conc} 1", {"cat": "rec-readerr-wrapped", "f": 1}))
                        ops.append((f"srecon {d} {p} {B} {L} {lst(valid)} {lst(missing)} {i}:{k} - {seed} {conc} 1", {"cat": "rec-truncated", "f": 1 if k != L and len(valid) >= 2 else 0}))
                for j in missing:
                    for k in offs[::2] if tier == "quick" else offs:
                        for kind in ["", ":short"]:
                            ops.append((f"srecon {d} {p} {B} {L} {lst(valid)} {lst(missing)} - w:{j}:{k}{kind} {seed} {conc} 1", {"cat": "rec-writeerr", "f": 1 if k < L else 0}))
        # Split: short / surplus source, reader fault, writer faults
        size = 100
        for srclen in range(0, size + 40):
            ops.append((f"ssplit {d} {p} {size} {srclen} - {seed}", {"cat": "split-srclen", "f": 1 if srclen < size else 0}))
        for k in range(0, size + 2):
            ops.append((f"ssplit {d} {p} {size} {size} r:0:{k} {seed}", {"cat": "split-readerr", "f": 1 if k < size else 0}))
            for j in range(d):
                for kind in ["", ":short"]:
                    ops.append((f"ssplit {d} {p} {size} {size} w:{j}:{k}{kind} {seed}", {"cat": "split-writeerr", "f": 1 if k < (size + d - 1) // d else 0}))
        ops.append((f"ssplit {d} {p} {size} {size} nilw:0 {seed}", {"cat": "split-nil", "f": 1}))
        # Join
        Lj = 50
        for out in [0, 1, Lj, d * Lj, d * Lj + 1]:
            for i in range(d):
                for k in range(0, Lj + 1, 3):
                    ops.append((f"sjoin {d} {p} {Lj} {out} {n} r:{i}:{k} {seed}", {"cat": "join-readerr", "f": 1}))
            for k in range(0, d * Lj + 2, 7):
                for kind in ["", ":short"]:
                    ops.append((f"sjoin {d} {p} {Lj} {out} {n} w:0:{k}{kind} {seed}", {"cat": "join-writeerr", "f": 1}))
            ops.append((f"sjoin {d} {p} {Lj} {out} {n} nilr:0 {seed}", {"cat": "join-nil", "f": 1}))
            ops.append((f"sjoin {d} {p} {Lj} {out} {d-1} - {seed}", {"cat": "join-toofew", "f": 1}))
    return ops


def corpus_ops():
    return [("sencode 2 1 64 128,64 - 5 - 1", {"cat": "corpus", "f": 1}), ("sverify 2 1 64 128 1:64 - - 5 - 1", {"cat": "corpus", "f": 1}),
            ("srecon 2 1 64 128 0,2 1 2:64 - 5 - 1", {"cat": "corpus", "f": 1}), ("ssplit 2 1 100 90 - 5", {"cat": "corpus", "f": 1}),
            ("ssplit 2 1 100 120 - 5", {"cat": "corpus", "f": 0})]


def execute(ops, ctx):
    def key(line, meta, g):
        return line if meta.get("f") else None
    res = C.execute_diff(ops, ctx, key)
    # property-level checks on the implementation's own answers, independent of the model
    lines = [o for o, _ in ops]
    go = C.run_ops(ctx["harness"], lines)
    raw = None
    for (line, meta), g in zip(ops, go):
        f = line.split()
        injected = any(t.startswith(("r:", "w:")) for t in f)
        if not g:
            continue
        errc = g.split()[0]
        if meta.get("f") and errc == "nil" and meta["cat"] not in ("join-readerr", "join-writeerr"):
            # (Join succeeds legitimately when outSize is reached before the fault position)
            res["mismatches"].append({"kind": "fault-accepted", "ops": [line], "go": g, "model": "an error", "cat": meta["cat"]})
        if meta.get("f") and f[0] == "sverify" and g.endswith("true"):
            res["mismatches"].append({"kind": "verify-true-on-fault", "ops": [line], "go": g, "model": "false", "cat": meta["cat"]})
        if injected and errc in ("Injected", "ShortWrite") and raw is None:
            raw = {"kind": "raw-error-unwrapped", "ops": [line], "go": g, "cat": meta["cat"],
                   "model": "StreamReadError/StreamWriteError naming the stream"}
    if raw:
        res["mismatches"].append(raw)
    return res


def match_known(mm, known):
    for k in known.get("findings", []):
        if k.get("property") == PROP and k["match"].get("kind") == mm.get("kind") and \
                mm["ops"][0].split()[0] in k["match"].get("ops_prefix", []):
            return k["what"][:160]
    return None
