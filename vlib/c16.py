"""C16 — the public API is total: documented errors, no panics, no unusable encoders."""
import itertools, re
from . import common as C
from .gens import *

PROP = "C16"
LEAN_MODULE = "RSV.Props.C16all"
RULE = ("proof: in the API model every slice/array index computed from caller-controlled values carries an explicit bounds check "
        "whose failure is the outcome `panic`, and the slice windows of the kernels (Encode/Verify/EncodeIdx/Update/both passes of "
        "Reconstruct, matrix and Leopard) are evaluated on the argument lengths and capacities with the same outcome; C16_* prove that no argument tuple reaches `panic`, which documented error each "
        "malformed shape yields, and that every encoder `New` returns satisfies `usable` (Leopard indices stay inside the field), "
        "for all 64-bit (d,p). Correspondence: grammar-generated calls of every exported method with valid and invalid shapes "
        "(shard counts, nil/empty/unequal shards, mask lengths, indices, negative sizes) and (d,p,options) over the whole int range; "
        "outcome classes ok / err <class> / panic must agree; each call runs under a 20 s watchdog with a goroutine-leak check; "
        "every accepted encoder must Encode, Verify and Reconstruct a valid set. A case = one call; non-trivial = outcome is an error")
ASSUMPTIONS = ["hangs and goroutine leaks are measured (watchdog, runtime.NumGoroutine), not proved",
               "stream methods with malformed arguments are covered by C15's nil/too-few cases"]
TRUSTED = []

FAMS = ["default", "leo8", "leo16"]


def canon(g):
    if g is None:
        return g
    g = re.sub(r"Other\([^)]*\)", "Other", g)
    g = re.sub(r"^panic .*", "panic", g)
    return g


def shapes_for(rng, d, p, kind):
    """a list of shard-shape strings for a d+p set"""
    total = d + p
    s = 64 if kind != "default" else rng.choice([1, 10, 64, 100])
    out = []
    for n in {0, 1, max(0, d - 1), d, max(0, total - 1), total, total + 1}:
        for pat in ["full", "onenil", "oneempty", "onecap", "allnil", "unequal", "firstnil", "mixed"]:
            sh = [str(s)] * n
            if n == 0 and pat != "full":
                continue
            if pat == "onenil":
                sh[rng.randrange(n)] = "n"
            elif pat == "oneempty":
                sh[rng.randrange(n)] = "e"
            elif pat == "onecap":
                sh[rng.randrange(n)] = f"c{s + rng.choice([-1, 0, 5]) if s > 1 else 2}"
            elif pat == "allnil":
                sh = ["n"] * n
            elif pat == "unequal":
                sh[rng.randrange(n)] = str(s + rng.choice([-1, 1, 64]) if s > 1 else 2)
            elif pat == "firstnil":
                sh[0] = "n"
            elif pat == "mixed":
                sh = [rng.choice([str(s), "n", "e", f"c{s}"]) for _ in range(n)]
            out.append(",".join(sh) if sh else "-")
    return out


def gen_ops(tier, rng):
    ops = []
    big = ["0", "1", "-1", "2", "127", "128", "129", "255", "256", "257", "32768", "65535", "65536", "65537",
           "2147483648", "4611686018427387904", "9223372036854775807", "-9223372036854775808"]
    flags = ["-", "leo8", "leo16", "cauchy", "par1", "jerasure", "xor", "custom2x3", "leo8,ic-", "ag",
             # the Leopard selectors switched off again / combined: the LAST setter decides
             "leo16f", "leo8f", "leo16,leo16f", "leo8,leo8f", "leo8,leo16f", "leo16,leo8f", "leo16f,leo8", "leo8f,leo16"]
    for d in big:
        for p in big:
            for fl in (flags if tier == "thorough" else rng.sample(flags, 4) + ["-"]):
                # encoders with more than ~2^17 shards allocate gigabytes of tables; skipped and counted
                try:
                    tot = int(d) + int(p)
                except ValueError:
                    tot = 0
                ops.append((f"new {d} {p} {fl}", {"cat": "new"}))
                if rng.random() < 0.3:
                    ops.append((f"newstream {d} {p} {fl}", {"cat": "newstream"}))
    # every option flag on every small shape (deterministic, both tiers)
    for d in range(0, 5):
        for p in range(0, 4):
            for fl in flags:
                ops.append((f"new {d} {p} {fl}", {"cat": "new-small"}))
                ops.append((f"newstream {d} {p} {fl}", {"cat": "newstream-small"}))
    # option records that change the derived goroutine / split parameters: every accepted encoder must stay usable
    optflags = ["ag=1000", "ag=4096", "ag=20000", "ag=40000", "ag=65536", "ag=131072", "ag=1000000", "ms=1", "ms=100000",
                "ag=40000,ms=20000", "ag=131072,ms=60000", "g=1", "g=3", "g=1000", "ag=30000,g=2", "gfni-,avxgfni-,ag=40000",
                "nosimd,ag=50000", "ag=50000,ms=500"]
    for (d, p) in [(5, 3), (12, 4), (20, 4), (50, 14), (3, 11), (10, 10), (1, 1), (4, 0)]:
        for fl in optflags:
            ops.append((f"new {d} {p} {fl}", {"cat": "new-options"}))
            if rng.random() < 0.5:
                ops.append((f"newstream {d} {p} bs={rng.choice([1, 64, 4096, 40000, 131072])},{fl}", {"cat": "newstream-options"}))
    for _ in range(200 if tier == "quick" else 3000):
        d = rng.choice([rng.randint(-2, 300), rng.randint(1, 70000)])
        p = rng.choice([rng.randint(-2, 300), rng.randint(0, 70000)])
        ops.append((f"new {d} {p} {rng.choice(flags)}", {"cat": "new-seeded"}))
    confs = [("default", 4, 2), ("default", 1, 0), ("default", 3, 3), ("leo8", 4, 2), ("leo8", 5, 3), ("leo16", 4, 2), ("default", 1, 1), ("default", 10, 4), ("default", 3, 0), ("default", 2, 0)]
    for (fam, d, p) in confs:
        total = d + p
        shp = shapes_for(rng, d, p, fam)
        for sh in shp:
            ops.append((f"api {fam} {d} {p} enc {sh}", {"cat": "enc"}))
            ops.append((f"api {fam} {d} {p} ver {sh}", {"cat": "ver"}))
            ops.append((f"api {fam} {d} {p} rec all - {sh}", {"cat": "rec"}))
            ops.append((f"api {fam} {d} {p} rec data - {sh}", {"cat": "rec"}))
            for n in sorted({-1, 0, max(0, d - 1), d, d + 1, max(0, total - 1), total, total + 1}):
                bits = lst(sorted(rng.sample(range(max(n, 1)), min(max(n, 0), rng.randint(0, 3)))))
                ops.append((f"api {fam} {d} {p} rec some {n}:{bits} {sh}", {"cat": "rec-some"}))
                if n >= 1:
                    ops.append((f"api {fam} {d} {p} rec some {n}:{lst(range(n))} {sh}", {"cat": "rec-some"}))
            ops.append((f"api {fam} {d} {p} join {rng.choice([-1, 0, 1, 10, 1000])} {sh}", {"cat": "join"}))
        s = 64 if fam != "default" else 10
        for idx in [-1, 0, d - 1, d, d + 1]:
            for psh in [",".join([str(s)] * p) or "-", ",".join([str(s)] * max(0, p - 1)) or "-", ",".join([str(s)] * (p + 1)), ",".join(["n"] * p) or "-",
                        ",".join([str(s + 1)] * p) or "-"]:
                for dl in [str(s), str(s + 1), "0", "n"]:
                    ops.append((f"api {fam} {d} {p} idx {dl} {idx} {psh}", {"cat": "idx"}))
        for sh in rng.sample(shp, min(len(shp), 12)):
            for nw in rng.sample(shapes_for(rng, d, 0, fam), 8):
                ops.append((f"api {fam} {d} {p} upd {sh} {nw}", {"cat": "upd"}))
        for (n, c) in [(0, 0), (0, 10), (1, 1), (10, 10), (10, 1000)]:
            ops.append((f"api {fam} {d} {p} split {n} {c}", {"cat": "split"}))
        for each in [-1, 0, 1, 64, 100]:
            ops.append((f"api {fam} {d} {p} alloc {each}", {"cat": "alloc"}))
    # EXHAUSTIVE small-shape grids: every assignment of {nil, empty non-nil, empty with capacity, right size, other size} to
    # every argument position of a 2+1 (and a Leopard 2+2) encoder, for the calls whose kernels slice their arguments
    import itertools
    alpha = {"default": ["n", "e", "c12", "10", "11"], "leo8": ["n", "e", "c64", "64", "128"]}
    for (fam, d, p) in [("default", 2, 1), ("leo8", 2, 2), ("default", 3, 0)]:
        A = alpha[fam]
        for sh in itertools.product(A, repeat=d + p):
            shs = ",".join(sh)
            ops.append((f"api {fam} {d} {p} enc {shs}", {"cat": "grid-enc"}))
            ops.append((f"api {fam} {d} {p} ver {shs}", {"cat": "grid-ver"}))
            ops.append((f"api {fam} {d} {p} rec all - {shs}", {"cat": "grid-rec"}))
            ops.append((f"api {fam} {d} {p} rec data - {shs}", {"cat": "grid-rec"}))
            if fam == "default":
                for nw in itertools.product(A, repeat=d):
                    ops.append((f"api {fam} {d} {p} upd {shs} {','.join(nw)}", {"cat": "grid-upd"}))
        if fam == "default":
            for psh in itertools.product(A, repeat=p):
                for dl in ["n", "0", "10", "11"]:          # the data argument is given as a length (0 = empty, non-nil)
                    for idx in range(-1, d + 1):
                        ops.append((f"api {fam} {d} {p} idx {dl} {idx} {','.join(psh) or '-'}", {"cat": "grid-idx"}))
    # stream Join: a nil reader at every index of the full d+p reader list (parity positions are not considered)
    for (d, p) in [(2, 1), (3, 2), (4, 2)]:
        for i in range(d + p):
            for out in [1, d * 50 - 1, d * 50]:
                ops.append((f"guard sjoin {d} {p} 50 {out} {d+p} nilr:{i} {rng.randrange(1, 1<<30)}", {"cat": "stream-join-nil"}))
    # stream Split with every number of writers 0 .. TotalShards+1 (exactly DataShards is the contract)
    for (d, p) in [(2, 1), (3, 2), (4, 2), (1, 0)]:
        for nw in range(0, d + p + 2):
            for size in [1, 100, 251]:
                ops.append((f"guard ssplit {d} {p} {size} {size} - {rng.randrange(1, 1<<30)} {nw}", {"cat": "stream-split-writers"}))
    # ReconstructSome, exhaustive over small shapes: every present/missing pattern x every `required` mask of EVERY length
    # 0 .. total+1 (also the lengths strictly between DataShards and TotalShards) x every bit pattern
    for (fam, d, p, sz) in [("default", 2, 3, "10"), ("leo8", 2, 2, "64")] + ([("default", 3, 2, "10"), ("leo16", 2, 2, "64")] if tier == "thorough" else []):
        for sh in itertools.product(["n", sz], repeat=d + p):
            for L in range(0, d + p + 2):
                for bits in itertools.product([0, 1], repeat=L):
                    req = [i for i in range(L) if bits[i]]
                    ops.append((f"api {fam} {d} {p} rec some {L}:{lst(req)} {','.join(sh)}", {"cat": "grid-rec-some"}))
    # stream calls whose readers / writers fail, sequential and concurrent I/O, under the watchdog: a documented error,
    # never a hang or a leaked goroutine (the fault grammar and the model's answers are C15's)
    from . import c15
    import random as _r
    sub = _r.Random(rng.randrange(1 << 30))
    faults = [o for o in c15.gen_ops("quick", sub) if o[0].split()[0] in ("sencode", "sverify", "srecon") and o[1].get("f") == 1]
    conc = [o for o in faults if o[0].split()[-2] == "c" and " w:" in o[0]]
    pick = sub.sample(conc, min(len(conc), 250 if tier == "quick" else 2000)) + sub.sample(faults, min(len(faults), 150 if tier == "quick" else 2000))
    for (line, meta) in pick:
        ops.append(("guard " + line, {"cat": "stream-" + meta["cat"]}))
    # stream Reconstruct, exhaustive over the argument shape of small encoders: every index has no stream, a reader, a fill
    # writer, or BOTH (the documented ErrReconstructMismatch, wherever the clash sits), sequential and concurrent I/O
    for (d, p) in ([(2, 3)] if tier == "quick" else [(2, 3), (3, 2), (1, 4)]):
        for st in itertools.product("nvfb", repeat=d + p):
            valid = [i for i in range(d + p) if st[i] in "vb"]
            fill = [i for i in range(d + p) if st[i] in "fb"]
            for c in ["-", "c"]:
                ops.append((f"guard srecon {d} {p} 64 70 {c15.lst(valid)} {c15.lst(fill)} - - {sub.randrange(1, 1<<30)} {c} 0", {"cat": "grid-srecon"}))
    return ops


def corpus_ops():
    return [("new 200 56 leo8", {"cat": "corpus"}), ("new 40000 20000 -", {"cat": "corpus"}), ("newstream 4 2 leo8", {"cat": "corpus"}),
            ("api default 4 2 join -1 10,10,10,10", {"cat": "corpus"}), ("api default 4 2 alloc -1", {"cat": "corpus"}),
            ("api default 4 3 rec some 4:1 100,n,100,100,100,n,100", {"cat": "corpus"}),
            # fix 40188d9: a custom matrix with more rows than parity shards
            ("new 2 1 custom2x3", {"cat": "corpus"}), ("new 3 1 custom2x3", {"cat": "corpus"}), ("new 1 1 custom2x3", {"cat": "corpus"}),
            ("newstream 2 1 custom2x3", {"cat": "corpus"}),
            # fix a37e7db: shard-count overflow with a custom matrix
            ("new 9223372036854775807 1 custom2x3", {"cat": "corpus"}), ("new 9223372036854775806 2 custom2x3", {"cat": "corpus"}),
            # fix bd2a6b4: an empty non-nil old data shard with a replacement given / an empty non-nil parity shard
            ("api default 4 2 upd 10,e,10,10,10,10 n,10,10,10", {"cat": "corpus"}),
            ("api default 4 2 upd 10,10,10,10,e,10 10,n,n,n", {"cat": "corpus"})]


def execute(ops, ctx):
    lines = [o for o, _ in ops]
    go = [canon(g) for g in C.run_ops(ctx["harness"], lines)]
    lean = C.run_ops(ctx["driver"], lines)
    mism, nontriv, dist, samples = [], set(), {}, []
    for (line, meta), g, l in zip(ops, go, lean):
        body, _ = C.split_flags(l)
        dist[meta["cat"]] = dist.get(meta["cat"], 0) + 1
        oc = (g or "").split()[0] if g else "none"
        dist["outcome:" + ((g or "none") if oc != "ok" else "ok")[:40]] = dist.get("outcome:" + ((g or "none") if oc != "ok" else "ok")[:40], 0) + 1
        if g and g.startswith("err"):
            nontriv.add(line)
        if len(samples) < 6 and g and g.startswith("err") and meta["cat"] not in [s["cat"] for s in samples]:
            samples.append({"op": line, "go": g, "model": body, "cat": meta["cat"]})
        bad = None
        if g is None or g.startswith("panic") or g.startswith("crash") or "hang" in g or "LEAK" in g:
            bad = {"kind": "panic-or-hang", "ops": [line], "go": g, "model": body, "cat": meta["cat"]}
        elif g.startswith("ok") and ("usable" not in g and "skipped" not in g) and line.startswith("new "):
            bad = {"kind": "unusable-encoder", "ops": [line], "go": g, "model": body, "cat": meta["cat"]}
        elif g != body:
            bad = {"kind": "go-vs-model", "ops": [line], "go": g, "model": body, "cat": meta["cat"]}
        if bad:
            mism.append(bad)
    return {"evaluations": len(ops), "nontrivial": nontriv, "mismatches": mism, "samples": samples, "dist": dist}
