"""C17 — precomputed tables equal the field they tabulate."""
from . import common as C

PROP = "C17"
LEAN_MODULE = "RSV.Props.C17all"
RULE = ("proof: kernel evaluation (decide +kernel) of every entry of the static GF(2^8) tables regenerated from "
        "/repo/galois.go against shift-and-reduce arithmetic; correspondence: every table of the *running* package "
        "(static and Leopard run-time tables, dumped through the verif hook) is compared entry by entry with the "
        "translator's copy / the Lean model's computation; a case = one table (or one 256-entry slice of a large one), "
        "non-trivial = it has at least two distinct entries")
ASSUMPTIONS = ["the Go compiler initialises the static tables from the literals the translator reads (cross-checked by "
               "dumping them from the running package)",
               "GF2P8AFFINEQB byte semantics as in the Intel SDM (RSV.Spec.Lanes.affineByte)"]
TRUSTED = ["table literals are parsed by go/parser, packed little-endian into Nat literals"]


def gen_ops(tier, rng):
    ops = []
    for t in ["log", "exp", "inv", "low", "high", "gfni"]:
        ops.append((f"tab static {t} 0", {"cat": "static:" + t}))
    for blk in range(16):
        ops.append((f"tab static mul {blk}", {"cat": "static:mul"}))
    for t in ["log", "exp", "skew", "walsh"]:
        ops.append((f"tab leo8 {t} 0", {"cat": "leo8:" + t}))
    for blk in range(16):
        ops.append((f"tab leo8 mul {blk}", {"cat": "leo8:mul"}))
        ops.append((f"tab leo8 mul256 {blk}", {"cat": "leo8:mul256"}))
    n16 = 256          # every entry of the four 65,536-entry GF(2^16) tables, both tiers
    for t in ["log", "exp", "skew", "walsh"]:
        for blk in range(n16):
            ops.append((f"tab leo16 {t} {blk}", {"cat": "leo16:" + t}))
    ms = sorted(set([0, 1, 2, 255, 256, 65534, 65535] + [rng.randrange(65536) for _ in range(24 if tier == "quick" else 2000)]))
    for m in ms:
        ops.append((f"tab leo16 mul {m}", {"cat": "leo16:mul"}))
        ops.append((f"tab leo16 mul256 {m}", {"cat": "leo16:mul256"}))
    # matrix.go: the package's Invert and generator builders = the model's (go-vs-model), and the code REGENERATED from the
    # current matrix.go / reedsolomon.go by the translator agrees with the model on the same input (flag gen=)
    for n in list(range(1, 13)) + [16, 20, 31]:
        for kind in ["rand", "sing", "sparse", "swap"]:
            for _ in range(1 if tier == "quick" else 6):
                ops.append((f"minv {n} {rng.randrange(1, 1<<30)} {kind}", {"cat": "matrix-invert:" + kind}))
    # matrix.SubMatrix on arbitrary windows (the in-package callers only reach two of them)
    for n in [1, 2, 3, 5, 8, 13] + ([21, 40] if tier == "thorough" else []):
        for _ in range(3 if tier == "quick" else 12):
            r0 = rng.randrange(n); r1 = rng.randrange(r0 + 1, n + 1)
            c0 = rng.randrange(n); c1 = rng.randrange(c0 + 1, n + 1)
            ops.append((f"msub {n} {rng.randrange(1, 1<<30)} {r0} {c0} {r1} {c1}", {"cat": "matrix-submatrix"}))
    shapes = [(1, 2), (2, 3), (3, 5), (4, 7), (5, 8), (10, 14), (17, 20), (12, 24), (30, 40)] + ([(50, 70), (100, 120)] if tier == "thorough" else [])
    for (d, t) in shapes:
        for kind in ["default", "cauchy", "par1", "vandermonde"]:
            ops.append((f"bmat {kind} {d} {t}", {"cat": "matrix-build:" + kind}))
        ops.append((f"bmat xor {d} {d + 1}", {"cat": "matrix-build:xor"}))
    # the scalar field functions of galois.go / leopard.go over complete input blocks: package = specification (go-vs-model)
    # and regenerated function = specification (flag gen=)
    for a in (range(256) if tier == "thorough" else [0, 1, 2, 3, 29, 142, 255] + [rng.randrange(256) for _ in range(12)]):
        ops.append((f"fn galdiv {a}", {"cat": "fn:galDivide"}))
        ops.append((f"fn galexp {a}", {"cat": "fn:galExp"}))
    ops.append(("fn galinv 0", {"cat": "fn:galOneOver"}))
    for blk in ([0, 1, 31, 63] if tier == "quick" else range(64)):
        ops.append((f"fn ceilpow2 {blk}", {"cat": "fn:ceilPow2"}))
    return ops


def flag_check(line, meta, flags):
    if line.split()[0] in ("minv", "msub", "bmat", "fn") and flags.get("gen") != "1":
        return "the code regenerated from the Go source (RSV.Gen.MatrixGo / RSV.Gen.Funcs) disagrees with the model on this input"
    return None


def execute(ops, ctx):
    def key(line, meta, g):
        return line if g and (g.startswith("ok") or g == "singular") and "distinct=1 " not in g else None
    return C.execute_diff(ops, ctx, key, flag_check)


def search(problems, ctx, rng):
    """a table theorem or the translator broke: find a wrong entry and confirm it through the public API"""
    ops = [(f"tabcheck {t}", {}) for t in ["mul", "inv", "exp", "log", "low", "high", "gfni"]]
    go = C.run_ops(ctx["harness"], [o for o, _ in ops], jobs=1)
    out = []
    for (o, _), g in zip(ops, go):
        if g and g.startswith("wrong"):
            out.append({"kind": "table-entry-wrong", "ops": [o], "go": g, "why": "the running package's table disagrees with "
                        "shift-and-reduce arithmetic; confirmed through the public API where a path reads the entry"})
    return out
