"""C17 — precomputed tables equal the field they tabulate."""
from . import common as C

PROP = "C17"
LEAN_MODULE = "RSV.Props.C17all"
RULE = ("proof: kernel evaluation (decide +kernel) of every entry of the static GF(2^8) tables regenerated from "
        "/repo/galois.go against shift-and-reduce arithmetic; correspondence: every table of the *running* package "
        "(static and Leopard run-time tables, dumped through the verif hook) is compared entry by entry with the "
        "translator's copy / the Lean model's computation; a case = one table (or one 256-entry slice of a large one), "
        "non-trivial = it has at least two distinct entries")
ASSUMPTIONS = ["the Go compiler initialises the static tables from the literals the translator reads (cross-checked by "
               "dumping them from the running package)",
               "GF2P8AFFINEQB byte semantics as in the Intel SDM (RSV.Spec.Lanes.affineByte)"]
TRUSTED = ["table literals are parsed by go/parser, packed little-endian into Nat literals"]


def gen_ops(tier, rng):
    ops = []
    for t in ["log", "exp", "inv", "low", "high", "gfni"]:
        ops.append((f"tab static {t} 0", {"cat": "static:" + t}))
    for blk in range(16):
        ops.append((f"tab static mul {blk}", {"cat": "static:mul"}))
    for t in ["log", "exp", "skew", "walsh"]:
        ops.append((f"tab leo8 {t} 0", {"cat": "leo8:" + t}))
    for blk in range(16):
        ops.append((f"tab leo8 mul {blk}", {"cat": "leo8:mul"}))
        ops.append((f"tab leo8 mul256 {blk}", {"cat": "leo8:mul256"}))
    n16 = 256          # every entry of the four 65,536-entry GF(2^16) tables, both tiers
    for t in ["log", "exp", "skew", "walsh"]:
        for blk in range(n16):
            ops.append((f"tab leo16 {t} {blk}", {"cat": "leo16:" + t}))
    ms = sorted(set([0, 1, 2, 255, 256, 65534, 65535] + [rng.randrange(65536) for _ in range(24 if tier == "quick" else 2000)]))
    for m in ms:
        ops.append((f"tab leo16 mul {m}", {"cat": "leo16:mul"}))
        ops.append((f"tab leo16 mul256 {m}", {"cat": "leo16:mul256"}))
    return ops


def execute(ops, ctx):
    def key(line, meta, g):
        return line if g and g.startswith("ok") and "distinct=1 " not in g else None
    return C.execute_diff(ops, ctx, key)


def search(problems, ctx, rng):
    """a table theorem or the translator broke: find a wrong entry and confirm it through the public API"""
    ops = [(f"tabcheck {t}", {}) for t in ["mul", "inv", "exp", "log", "low", "high", "gfni"]]
    go = C.run_ops(ctx["harness"], [o for o, _ in ops], jobs=1)
    out = []
    for (o, _), g in zip(ops, go):
        if g and g.startswith("wrong"):
            out.append({"kind": "table-entry-wrong", "ops": [o], "go": g, "why": "the running package's table disagrees with "
                        "shift-and-reduce arithmetic; confirmed through the public API where a path reads the entry"})
    return out
