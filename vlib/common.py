"""Shared machinery of the ./check runner: build steps (Tie A + Lean kernel re-check + audit),
correspondence runs (Tie B), evidence and violation reporting."""
import hashlib, json, os, random, re, subprocess, sys, time, tempfile, shutil
from concurrent.futures import ThreadPoolExecutor

VERIF = os.path.dirname(os.path.dirname(os.path.abspath(__file__)))
REPO = os.environ.get("VERIF_REPO", "/repo")
LEAN = os.path.join(VERIF, "lean")
BIN = os.path.join(VERIF, "bin")
WORK = os.path.join(VERIF, "work")
GOENV = dict(os.environ, GOFLAGS="-mod=mod", GOPROXY="off", GOSUMDB="off", GOTOOLCHAIN="local",
             )
ALLOWED_AXIOMS = {"propext", "Classical.choice", "Quot.sound"}
FORBIDDEN = re.compile(r"\b(sorry|admit|native_decide|bv_decide|implemented_by)\b|^\s*axiom\s|unsafe\s|maxHeartbeats\s+0")
NCPU = os.cpu_count() or 4


class CheckBroken(Exception):
    """the machinery itself could not run (not a verdict about the property)"""


def sh(cmd, cwd=None, env=None, timeout=None, input=None):
    p = subprocess.run(cmd, cwd=cwd, env=env, timeout=timeout, input=input,
                       stdout=subprocess.PIPE, stderr=subprocess.STDOUT, text=True)
    return p.returncode, p.stdout


# ----------------------------------------------------------------------------- builds
def build_extract():
    os.makedirs(BIN, exist_ok=True)
    rc, out = sh(["go", "build", "-o", os.path.join(BIN, "extract"), "."],
                 cwd=os.path.join(VERIF, "tools", "extract"), env=GOENV)
    if rc != 0:
        raise CheckBroken("go build extract failed:\n" + out)


def run_extract():
    """Tie A: regenerate RSV/Gen from the current /repo sources."""
    if not os.path.exists(os.path.join(BIN, "extract")):
        build_extract()
    gen = os.path.join(LEAN, "RSV", "Gen")
    tmp = tempfile.mkdtemp(prefix="gen", dir=WORK)
    rc, out = sh([os.path.join(BIN, "extract"), REPO, tmp])
    global TRANSLATOR_PROBLEM
    TRANSLATOR_PROBLEM = None
    if rc == 2 and all(os.path.exists(os.path.join(tmp, n)) for n in ("Tables.lean", "Facts.lean", "Switch.lean")):
        # the Go-subset -> Lean function translator rejected a construct (tables, constants and the kernel switch were
        # extracted): the previous Funcs.lean / MatrixGo.lean stay in place so that everything else still builds, and the
        # rejection is a broken obligation of exactly the properties whose theorems rest on the regenerated functions
        TRANSLATOR_PROBLEM = "translator: " + " ; ".join(out.strip().splitlines())[-700:]
        global GEN_FUNC_MODULES
        # which regenerated file lost a function: ApiGo.lean (shardSize / checkShards / Split sizes) or Funcs / MatrixGo
        GEN_FUNC_MODULES = ("RSV.Gen.ApiGo",) if "ApiGo" in out else ("RSV.Gen.Funcs", "RSV.Gen.MatrixGo")
    elif rc != 0:
        shutil.rmtree(tmp, ignore_errors=True)
        return False, out
    os.makedirs(gen, exist_ok=True)
    # only touch files whose content changed, so Lake does not rebuild needlessly
    for n in os.listdir(tmp):
        new = open(os.path.join(tmp, n)).read()
        dst = os.path.join(gen, n)
        if not os.path.exists(dst) or open(dst).read() != new:
            open(dst, "w").write(new)
    shutil.rmtree(tmp, ignore_errors=True)
    return True, ""


TRANSLATOR_PROBLEM = None
GEN_FUNC_MODULES = ("RSV.Gen.Funcs", "RSV.Gen.MatrixGo")

_lake_lock = os.path.join(VERIF, "work", ".lake.lock")


def lake_build(targets, timeout=3600):
    import fcntl
    os.makedirs(WORK, exist_ok=True)
    with open(_lake_lock, "w") as lk:
        fcntl.flock(lk, fcntl.LOCK_EX)
        rc, out = sh(["lake", "build"] + targets, cwd=LEAN, timeout=timeout)
    return rc, out


def lean_sources(modules):
    """files of the RSV modules reachable from `modules` (transitively, RSV.* only)"""
    seen, todo = {}, list(modules)
    while todo:
        m = todo.pop()
        if m in seen:
            continue
        path = os.path.join(LEAN, *m.split(".")) + ".lean"
        if not os.path.exists(path):
            continue
        src = open(path).read()
        seen[m] = path
        for imp in re.findall(r"^import\s+(RSV\.[\w.]+)", src, re.M):
            todo.append(imp)
    return seen


def strip_comments(src):
    src = re.sub(r"/-.*?-/", "", src, flags=re.S)
    src = re.sub(r"--.*", "", src)
    return src


def audit(prop_module):
    """stranger's audit: forbidden tokens in every reachable RSV source; #print axioms of every
    theorem stated in the property file.  Returns (obligations, discharged, problems, axioms_seen, thms)."""
    srcs = lean_sources([prop_module])
    problems = []
    for m, path in srcs.items():
        for i, line in enumerate(strip_comments(open(path).read()).splitlines(), 1):
            if FORBIDDEN.search(line):
                problems.append(f"forbidden token in {m}:{i}: {line.strip()[:80]}")
    # property theorems: every theorem stated in the property module and in the RSV.Props.* modules it imports
    thms = []
    for m, path in sorted(srcs.items()):
        if not (m == prop_module or m.startswith("RSV.Props.")):
            continue
        src = strip_comments(open(path).read())
        ns = re.findall(r"^namespace\s+([\w.]+)", src, re.M)
        prefix = (ns[0] + ".") if ns else ""
        thms += [prefix + t for t in re.findall(r"^\s*(?:theorem|lemma)\s+([\w.']+)", src, re.M)]
    prefix = ""
    pfile = srcs[prop_module]
    if not thms:
        raise CheckBroken(f"no theorems found in {pfile}")
    aud = os.path.join(WORK, f"audit_{prop_module.split('.')[-1]}_{os.getpid()}.lean")
    with open(aud, "w") as f:
        f.write(f"import {prop_module}\n")
        for t in thms:
            f.write(f"#print axioms {t}\n")
    rc, out = sh(["lake", "env", "lean", aud], cwd=LEAN, timeout=1800)
    os.remove(aud)
    axioms_seen, discharged = set(), 0
    per = {}
    for mt in re.finditer(r"'(\S+)' (depends on axioms: \[([^\]]*)\]|does not depend on any axioms)", out):
        name = mt.group(1)
        axs = set(a.strip() for a in (mt.group(3) or "").replace("\n", " ").split(",") if a.strip())
        per[name] = axs
        axioms_seen |= axs
    for t in thms:
        name = prefix + t
        if name not in per:
            problems.append(f"theorem {name} not reported by #print axioms (does it still check?)")
            continue
        bad = per[name] - ALLOWED_AXIOMS
        if bad:
            problems.append(f"theorem {name} depends on non-standard axioms {sorted(bad)}")
        else:
            discharged += 1
    if rc != 0 and not problems:
        problems.append("audit file failed to elaborate: " + out[-500:])
    return len(thms), discharged, problems, sorted(axioms_seen), [prefix + t for t in thms]


def build_harness(tags="verif", name="harness"):
    dst = os.path.join(BIN, name)
    hdir = os.path.join(VERIF, "harness")
    shutil.copy(os.path.join(REPO, "go.sum"), os.path.join(hdir, "go.sum"))
    rc, out = sh(["go", "build", "-tags", tags, "-o", dst, "."], cwd=hdir, env=GOENV, timeout=900)
    if rc != 0:
        raise CheckBroken(f"go build harness (-tags {tags}) failed:\n" + out[-3000:])
    return dst


def build_driver():
    rc, out = lake_build(["driver"])
    if rc != 0:
        raise CheckBroken("lake build driver failed:\n" + out[-3000:])
    return os.path.join(LEAN, ".lake", "build", "bin", "driver")


# ----------------------------------------------------------------------------- correspondence
def _run_chunk(exe, lines, env=None, timeout=900):
    p = subprocess.run([exe], input="\n".join(lines) + "\n", stdout=subprocess.PIPE, stderr=subprocess.PIPE,
                       text=True, timeout=timeout, env=env)
    out = p.stdout.split("\n")
    if out and out[-1] == "":
        out.pop()
    return p.returncode, out, p.stderr


def run_ops(exe, ops, jobs=None, env=None, timeout=900):
    """feed op lines to `exe` in parallel chunks; a chunk whose process dies is re-run op by op"""
    if not ops:
        return []
    jobs = jobs or min(NCPU, max(1, len(ops) // 4))
    chunks = [ops[i::jobs] for i in range(jobs)]
    results = [None] * len(ops)

    def work(ci):
        lines = chunks[ci]
        rc, out, err = _run_chunk(exe, lines, env, timeout)
        if len(out) != len(lines):
            out = []
            for ln in lines:  # isolate the op that kills the process
                try:
                    rc1, o1, e1 = _run_chunk(exe, [ln], env, 600)
                except subprocess.TimeoutExpired:
                    o1, e1 = [], "timeout"
                out.append(o1[0] if len(o1) == 1 else "crash " + (e1.strip().split("\n")[0][:120] if e1 else f"rc={rc1}"))
        return ci, out

    with ThreadPoolExecutor(max_workers=jobs) as ex:
        for ci, out in ex.map(work, range(jobs)):
            for k, o in enumerate(out):
                results[ci + k * jobs] = o
    return results


def split_flags(line):
    """driver lines look like '<result> | k=v k=v'"""
    if " | " in line:
        body, flags = line.split(" | ", 1)
        return body, dict(kv.split("=", 1) for kv in flags.split() if "=" in kv)
    return line, {}


# ----------------------------------------------------------------------------- reporting
def known_findings():
    p = os.path.join(VERIF, "known_findings.json")
    if os.path.exists(p):
        return json.load(open(p))
    return {"findings": [], "fixed": []}


def write_replay(prop, payload):
    os.makedirs(os.path.join(VERIF, "replays"), exist_ok=True)
    h = hashlib.sha1(json.dumps(payload, sort_keys=True).encode()).hexdigest()[:12]
    path = os.path.join(VERIF, "replays", f"{prop}-{h}.json")
    json.dump(payload, open(path, "w"), indent=1)
    return path


def write_evidence(prop, tier, seed, coverage, assumptions, wall, violations, level="proof"):
    os.makedirs(os.path.join(VERIF, "evidence"), exist_ok=True)
    ev = {"property_id": prop, "tier": tier, "seed": seed, "level": level, "coverage": coverage,
          "assumptions": assumptions, "wall_s": round(wall, 2), "violations": violations}
    json.dump(ev, open(os.path.join(VERIF, "evidence", f"{prop}.json"), "w"), indent=1)


# ----------------------------------------------------------------------------- generic Tie-B executor
def execute_diff(ops, ctx, nontrivial_key, flag_check=None, env=None, jobs=None):
    """ops: list of (line, meta).  Runs harness and driver on the same lines, compares the result
    bodies, checks the driver's self-check flags.  Returns the result dict ./check expects."""
    lines = [o for o, _ in ops]
    t0 = time.time()
    tmo = 900 if ctx.get("tier") != "thorough" else 5400
    with ThreadPoolExecutor(max_workers=2) as ex:
        fg = ex.submit(run_ops, ctx["harness"], lines, jobs, env, tmo)
        fl = ex.submit(run_ops, ctx["driver"], lines, jobs, None, tmo)
        go, lean = fg.result(), fl.result()
    mism, nontriv, dist, samples = [], set(), {}, []
    for (line, meta), g, l in zip(ops, go, lean):
        body, flags = split_flags(l if l is not None else "missing")
        cat = meta.get("cat", line.split()[0])
        dist[cat] = dist.get(cat, 0) + 1
        k = nontrivial_key(line, meta, g)
        if k is not None:
            nontriv.add(k)
        if len(samples) < 6 and k is not None and (len(samples) < 3 or meta.get("cat") not in [s.get("cat") for s in samples]):
            samples.append({"op": line[:300], "go": (g or "")[:200], "model": body[:200], "cat": cat})
        bad = None
        if g != body:
            bad = {"kind": "go-vs-model", "ops": [line], "go": (g or "")[:2000], "model": body[:2000], "cat": cat}
        elif flag_check:
            fb = flag_check(line, meta, flags)
            if fb:
                bad = {"kind": "model-self-check", "ops": [line], "go": (g or "")[:500], "model": l[:500], "why": fb, "cat": cat}
        if bad:
            mism.append(bad)
    return {"evaluations": len(ops), "nontrivial": nontriv, "mismatches": mism, "samples": samples, "dist": dist,
            "extra": {"correspondence_wall_s": round(time.time() - t0, 2)}}
