"""shared pieces of the op generators"""
import itertools

OPTSETS = ["-", "nosimd", "avx2-", "gfni-,avxgfni-", "gfni-,avxgfni-,avx2-", "g=1", "ms=64,g=4", "ic-", "ssse3-,avx2-,gfni-,avxgfni-",
           "avx512-,gfni-", "g=7,ms=1", "ag=4096", "ms=1024,g=3"]
SIZES_SMALL = [1, 2, 3, 7, 15, 16, 17, 31, 32, 33, 63, 64, 65, 100, 127, 128, 129, 255, 256, 257]
SIZES_MID = [1000, 1023, 1024, 1025, 2047, 2048, 2049, 4095, 4096, 4097, 8191, 8192, 8193, 16383, 16384, 16385,
             32767, 32768, 32769, 65535, 65536, 65537, 131071, 131072, 131073]
SIZES_BIG = [(1 << 20) + 3, (1 << 20), 262144 + 64, 524288 - 1, (10 << 20) - 64, (10 << 20) + 64]
MDS_FAMS = ["default", "cauchy", "jerasure"]


def subsets(n, kmax):
    for k in range(0, kmax + 1):
        for c in itertools.combinations(range(n), k):
            yield c


def lst(xs):
    xs = list(xs)
    return ",".join(map(str, xs)) if xs else "-"
